package obiformats

// Demonstration of a genuine C02 defect on the real code (go test -overlay): the scanner that delimits the JSON object of
// a title line toggles its "inside a string" state on EVERY double quote, escaped ones included.  A string value that
// contains a double quote is written as \" by the JSON writer; reading the header back, the scanner loses track of the
// strings, never finds the closing brace and returns the whole line as the definition: the annotations are lost.

import (
	"testing"

	"git.metabarcoding.org/obitools/obitools4/obitools4/pkg/obiseq"
)

func TestVerifFindingC02EscapedQuote(t *testing.T) {
	s := obiseq.NewBioSequence("id1", []byte("acgt"), "")
	s.SetAttribute("comment", `5" primer`)
	s.SetAttribute("count", 3)
	header := FormatFastSeqJsonHeader(s)
	back := obiseq.NewBioSequence("id1", []byte("acgt"), header)
	ParseFastSeqJsonHeader(back)
	c, ok := back.GetAttribute("comment")
	if !ok || c != `5" primer` || back.Count() != 3 {
		t.Fatalf("header %s read back: comment=%v (present %v), count=%d, definition=%q", header, c, ok, back.Count(), back.Definition())
	}
}
