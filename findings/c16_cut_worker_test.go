package obiannotate

// Demonstration of a genuine C16 defect on the real code (go test -overlay): the closure returned by CutSequenceWorker
// assigns the captured options `from` and `to` while it handles a record, so what it does to a record depends on the
// records handled before it (and it races when several workers share the closure).

import (
	"testing"

	"git.metabarcoding.org/obitools/obitools4/obitools4/pkg/obiseq"
)

func TestVerifFindingC16CutDependsOnHistory(t *testing.T) {
	long := "acgtacgtacgtacgtacgt" // 20
	cut := func(history ...string) string {
		w := CutSequenceWorker(3, 15, false) // --cut 3:15
		for _, h := range history {
			w(obiseq.NewBioSequence("h", []byte(h), ""))
		}
		out, err := w(obiseq.NewBioSequence("x", []byte(long), ""))
		if err != nil || len(out) != 1 || out[0] == nil {
			return "error"
		}
		return out[0].String()
	}
	alone := cut()
	after := cut("acgtacgtac") // a 10 nt record handled first
	if alone != after {
		t.Fatalf("--cut 3:15 on the same 20 nt record: %q when handled first, %q after a 10 nt record", alone, after)
	}
}
