package obiseq

// Demonstration of a genuine C03 defect on the real code (go test -overlay): BioSequenceSlice.IsPaired indexes
// element 0 of an empty slice, so every stream operation that asks whether an EMPTY batch or input is paired
// (IBatchOver on an empty data set, BioSequenceBatch.IsPaired on an emptied batch) panics.

import "testing"

func TestVerifFindingC03IsPairedEmpty(t *testing.T) {
	defer func() {
		if r := recover(); r != nil {
			t.Fatalf("IsPaired on an empty slice panicked: %v", r)
		}
	}()
	s := MakeBioSequenceSlice()
	if s.IsPaired() {
		t.Fatalf("an empty slice cannot be paired")
	}
}
