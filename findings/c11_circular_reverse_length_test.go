package obiapat

// Demonstration of a genuine C11 defect on the real code (go test -overlay): on a circular template, when an amplicon
// found from the reverse primer wraps around the origin, its length is computed with the length of the FORWARD primer
// although the hit it starts from is a hit of the REVERSE primer.  With primers of different lengths the length
// filter is applied to a wrong value, so rotating the circular template changes the set of amplicons.

import (
	"strings"
	"testing"

	"git.metabarcoding.org/obitools/obitools4/obitools4/pkg/obiseq"
)

func TestVerifFindingC11CircularReverseLength(t *testing.T) {
	fwd := "acgtgcatgcatcgtagctagctaggat" // 28
	rev := "ttgacctgaagg"                 // 12
	rc := func(s string) string {
		return obiseq.NewBioSequence("x", []byte(s), "").ReverseComplement(false).String()
	}
	barcode := strings.Repeat("tctctatata", 2) // 20: inside [15, 50]
	circle := fwd + barcode + rc(rev) + strings.Repeat("g", 40)
	count := func(tpl string) int {
		return len(PCRSim(obiseq.NewBioSequence("t", []byte(tpl), ""),
			OptionForwardPrimer(fwd, 0), OptionReversePrimer(rev, 0),
			OptionMinLength(15), OptionMaxLength(50), OptionCircular(true)))
	}
	ref := count(rc(circle))
	for r := 0; r < len(circle); r++ {
		rot := circle[r:] + circle[:r]
		if n := count(rc(rot)); n != ref {
			t.Fatalf("circular template, reverse strand: %d amplicon(s) for rotation 0, %d for rotation %d (amplicon of 20 nt, bounds 15..50, primers of 28 and 12 nt)", ref, n, r)
		}
	}
}
