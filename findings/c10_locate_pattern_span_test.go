package obialign

// Demonstration of a genuine C10 defect on the real code (go test -overlay): LocatePattern, which refines a primer hit
// when indels are allowed, stops its backtracking before the first pattern symbol.  When that symbol is deleted at the
// very beginning of the fragment the start it returns is -1: the reported span lies outside the sequence (AllMatches
// then reports [-1, ...) for a hit at the start of a sequence).

import "testing"

func TestVerifFindingC10LocatePatternSpan(t *testing.T) {
	for _, c := range [][2]string{{"acgt", "cgtttttt"}, {"acgtacgt", "cgtacgttttt"}, {"acgt", "ttacgttt"}, {"aa", "aca"}} {
		from, to, _ := LocatePattern("x", []byte(c[0]), []byte(c[1]))
		if from < 0 || to > len(c[1]) || from > to {
			t.Errorf("pattern %s in %s: span [%d,%d) is not inside the sequence", c[0], c[1], from, to)
		}
	}
}
