package obikmer

// Demonstration of a genuine defect on the real code (go test -overlay), met while specifying C19: Encode4mer (and so
// Count4Mer / Index4mer) panics on a sequence of exactly 3 nucleotides: `length := slength - 3` is 0, the guard only
// rejects length < 0, and the first loop reads rawseq[3].

import (
	"testing"

	"git.metabarcoding.org/obitools/obitools4/obitools4/pkg/obiseq"
)

func TestVerifFindingC19Encode4merLength3(t *testing.T) {
	defer func() {
		if r := recover(); r != nil {
			t.Fatalf("Encode4mer on a 3 nt sequence panics: %v", r)
		}
	}()
	out := Encode4mer(obiseq.NewBioSequence("x", []byte("acg"), ""), nil)
	if len(out) != 0 {
		t.Fatalf("a 3 nt sequence holds no 4-mer, got %d codes", len(out))
	}
}
