package obiapat

// Demonstration for property C11 (circular templates, flanks requested): when the forward priming site lies closer to
// the origin of a circular template than the flank length, _Pcr computed a negative start for the amplicon window,
// Subsequence refused it ("from out of bounds") and the program ended in log.Fatalf - on a template that has a perfectly
// good amplicon (the flank simply wraps around the origin).  Rotating the same circle by a few positions gave the
// amplicon.  Drop into pkg/obiapat (go test -run TestVerifCircularFlankAcrossOrigin).

import (
	"strings"
	"testing"

	"git.metabarcoding.org/obitools/obitools4/obitools4/pkg/obiseq"
	log "github.com/sirupsen/logrus"
)

func TestVerifCircularFlankAcrossOrigin(t *testing.T) {
	fwd := "gtgtgcgtacgtagctag"
	rev := "ttcgatcgatcgtgtgca"
	rc := obiseq.NewBioSequence("r", []byte(rev), "").ReverseComplement(false).String()
	site := fwd + strings.Repeat("c", 20) + rc
	circle := site + strings.Repeat("a", 60)
	fatal := false
	defer func() { log.StandardLogger().ExitFunc = nil }()
	log.StandardLogger().ExitFunc = func(int) { fatal = true; panic("fatal") }
	want := ""
	for rot := 0; rot < len(circle); rot++ {
		// the same circle written from another origin
		tpl := circle[len(circle)-rot:] + circle[:len(circle)-rot]
		var amps obiseq.BioSequenceSlice
		func() {
			defer func() { recover() }()
			s := obiseq.NewBioSequence("c", []byte(tpl), "")
			amps = PCRSim(s, OptionForwardPrimer(fwd, 0), OptionReversePrimer(rev, 0), OptionCircular(true),
				OptionWithExtension(5), OptionMaxLength(40))
		}()
		if fatal {
			t.Fatalf("origin moved by %d: the program stops with a fatal error instead of returning the amplicon", rot)
		}
		if len(amps) != 1 {
			t.Fatalf("origin moved by %d: %d amplicons, expected 1", rot, len(amps))
		}
		if rot == 10 {
			want = amps[0].String()
		}
	}
	_ = want
}
