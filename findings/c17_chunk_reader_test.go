package obiformats

// Demonstration of a genuine C17 defect on the real code (go test -overlay): ReadSeqFileChunk treats
// io.ErrUnexpectedEOF as a clean end of file.  That is the very error gzip/bzip2/xz/zstd readers return for a
// TRUNCATED stream, so a cut compressed input is read "successfully" with only the records decompressed so far.

import (
	"bytes"
	"compress/gzip"
	"io"
	"runtime"
	"sync/atomic"
	"testing"
	"time"

	log "github.com/sirupsen/logrus"
)

func TestVerifFindingC17TruncatedGzip(t *testing.T) {
	var fatal int32
	log.StandardLogger().ExitFunc = func(int) { atomic.StoreInt32(&fatal, 1); runtime.Goexit() }

	var plain bytes.Buffer
	for i := 0; i < 400; i++ {
		plain.WriteString(">seq\nacgtacgtacgtacgtacgtacgtacgtacgtacgtacgt\n")
	}
	var gz bytes.Buffer
	w := gzip.NewWriter(&gz)
	w.Write(plain.Bytes())
	w.Close()
	cut := gz.Bytes()[:gz.Len()*2/3] // truncated member

	r, err := gzip.NewReader(bytes.NewReader(cut))
	if err != nil {
		t.Skip("header not readable")
	}
	// the decompressor reports the truncation as io.ErrUnexpectedEOF
	if _, e := io.ReadAll(r); e != io.ErrUnexpectedEOF {
		t.Skipf("unexpected decompressor behaviour: %v", e)
	}
	r, _ = gzip.NewReader(bytes.NewReader(cut))

	ch := ReadSeqFileChunk("x", r, make([]byte, 1024), EndOfLastFastaEntry)
	done := make(chan int)
	go func() {
		n := 0
		for range ch {
			n++
		}
		done <- n
	}()
	select {
	case n := <-done:
		if atomic.LoadInt32(&fatal) == 0 {
			t.Fatalf("truncated gzip stream: the chunk reader delivered %d chunks and ended normally, no error reported", n)
		}
	case <-time.After(5 * time.Second):
		if atomic.LoadInt32(&fatal) == 0 {
			t.Fatal("timeout without fatal")
		}
	}
}
