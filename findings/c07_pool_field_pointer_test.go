package obiseq

// Demonstration of a genuine C07 defect on the real code (go test -overlay, package pkg/obiseq): RecycleSlice put the
// ADDRESS it was given into the byte-slice pool.  Its callers pass the address of a record's own field and assign that
// field again right after the call (SetFeatures always, SetQualities when the new qualities are longer than 1024),
// so the pool kept a pointer to live data and handed it to the next GetSlice/CopySlice anywhere: creating an
// unrelated record overwrote the features / qualities of another one.  Found through obligation
// obiseq.RecycleSlice/hook:C07.pool_owns_header; repaired by the commit "fix: RecycleSlice put the caller's ...".

import (
	"bytes"
	"testing"
)

// SetFeatures hands the ADDRESS of the record's own field to the pool and then stores the caller's live slice in that
// field: the next GetSlice/CopySlice anywhere receives the record's live features and overwrites them.
func TestVerifFindingPoolHoldsLiveFeatures(t *testing.T) {
	s := NewBioSequence("s", []byte("acgt"), "")
	s.SetFeatures(make([]byte, 0, 300)) // nothing recycled yet (cap 0 before)
	live := bytes.Repeat([]byte("FEATURE-"), 40)
	s.SetFeatures(live) // recycles &s.feature (cap 300), then stores the live slice in s.feature
	before := string(s.Features())
	other := NewBioSequence("o", []byte("tttttttttttttttttttttttttttttttttttttttt"), "") // CopySlice -> GetSlice
	_ = other
	after := string(s.Features())
	if before != after {
		t.Fatalf("features of s changed by the creation of another record:\n before %q\n after  %q", before[:48], after[:48])
	}
}

// SetQualities with more than 1024 scores: the old (small) quality slice is recycled by address, CopySlice does not
// take it back (capacity > 1024 is never served by the pool), the field then holds the live qualities.
func TestVerifFindingPoolHoldsLiveQualities(t *testing.T) {
	s := NewBioSequence("s", bytes.Repeat([]byte("a"), 2000), "")
	s.SetQualities(bytes.Repeat([]byte{30}, 10))
	s.SetQualities(bytes.Repeat([]byte{40}, 2000))
	other := NewBioSequence("o", bytes.Repeat([]byte("t"), 50), "")
	_ = other
	for i, q := range s.Qualities() {
		if q != 40 {
			t.Fatalf("quality %d of s is %d after the creation of another record (expected 40)", i, q)
		}
	}
}
