package obiutils

// Demonstration of a genuine C18 defect on the real code (go test -overlay): Wfile.Close discarded the error of
// the final Flush of its bufio.Writer: a result smaller than the 4 KiB buffer written to a failing device was
// lost and Close returned nil.

import (
	"errors"
	"testing"
)

type verifFullDevice struct{}

func (verifFullDevice) Write(p []byte) (int, error) { return 0, errors.New("no space left on device") }
func (verifFullDevice) Close() error                { return nil }

func TestVerifFindingC18WfileClose(t *testing.T) {
	w, _ := CompressStream(verifFullDevice{}, false, true)
	if _, err := w.Write([]byte(">s1\nacgt\n")); err != nil {
		return // reported at once: fine
	}
	if err := w.Close(); err == nil {
		t.Fatalf("9 bytes were buffered, the device refused them at Flush, and Close returned nil")
	}
}
