package obikmer

// Demonstration of a genuine C19 defect on the real code (go test -overlay): DeBruijnGraph.Push ignores a sequence
// whose length is exactly k (it holds one k-mer), so the graph misses that k-mer / its weight.

import (
	"testing"

	"git.metabarcoding.org/obitools/obitools4/obitools4/pkg/obiseq"
)

func TestVerifFindingC19PushLengthK(t *testing.T) {
	g := MakeDeBruijnGraph(4)
	s := obiseq.NewBioSequence("x", []byte("acgt"), "")
	s.SetCount(7)
	g.Push(s)
	if g.Len() != 1 || g.Weight(0x1b) != 7 { // acgt = 00 01 10 11
		t.Fatalf("k=4, sequence acgt (count 7) pushed: %d node(s) in the graph, weight of acgt = %d", g.Len(), g.Weight(0x1b))
	}
}
