package obiformats

// Demonstration of a genuine C17 defect on the real code (go test -overlay): OBIMimeTypeGuesser accepted
// io.ErrUnexpectedEOF - the error of a truncated gzip/bzip2/xz/zstd stream - as "input shorter than 1 MiB" and
// returned the data decompressed so far followed by a clean EOF.

import (
	"bytes"
	"compress/gzip"
	"io"
	"testing"
)

func TestVerifFindingC17MimeGuesserTruncated(t *testing.T) {
	var plain bytes.Buffer
	for i := 0; i < 400; i++ {
		plain.WriteString(">seq\nacgtacgtacgtacgtacgtacgtacgtacgtacgtacgt\n")
	}
	var gz bytes.Buffer
	w := gzip.NewWriter(&gz)
	w.Write(plain.Bytes())
	w.Close()
	cut := gz.Bytes()[:gz.Len()*2/3]
	r, err := gzip.NewReader(bytes.NewReader(cut))
	if err != nil {
		t.Skip("header not readable")
	}
	_, rd, err := OBIMimeTypeGuesser(r)
	if err != nil {
		return // reported
	}
	data, err := io.ReadAll(rd)
	if err == nil {
		t.Fatalf("truncated gzip stream: %d of %d bytes returned followed by a clean EOF, no error reported", len(data), plain.Len())
	}
}
