package obiclean

// Demonstration of a genuine C13 defect on the real code (go test -race -overlay): the rows of the one-error graph are
// computed by several goroutines, and every row increments father.SonCount of OTHER nodes without synchronisation.
// Increments are lost under contention, so SonCount (hence the head/singleton status and the weights computed by
// reweightSequences) depends on the number of workers and on the schedule.  The race detector reports the conflicting
// accesses; the loop below also catches a lost update directly when one happens.

import (
	"fmt"
	"testing"

	"git.metabarcoding.org/obitools/obitools4/obitools4/pkg/obiseq"
)

func verifStar(n int) []*seqPCR {
	// n sons at one substitution of a single abundant father (placed last: samples are sorted by increasing count)
	base := []byte("acgtacgtacgtacgtacgtacgtacgtacgtacgtacgtacgtacgtacgtacgtacgtacgt")
	var seqs []*seqPCR
	alt := map[byte]byte{'a': 'c', 'c': 'g', 'g': 't', 't': 'a'}
	for k := 0; k < n; k++ {
		s := append([]byte{}, base...)
		s[k%len(s)] = alt[s[k%len(s)]]
		if k >= len(s) {
			s[(k+7)%len(s)] = alt[alt[s[(k+7)%len(s)]]]
		}
		seqs = append(seqs, &seqPCR{Count: 1, Sequence: obiseq.NewBioSequence(fmt.Sprint("s", k), s, "")})
	}
	seqs = append(seqs, &seqPCR{Count: 1000, Sequence: obiseq.NewBioSequence("father", base, "")})
	return seqs
}

func TestVerifFindingC13SonCountRace(t *testing.T) {
	for round := 0; round < 200; round++ {
		one := verifStar(64)
		buildSamplePairs(&one, 1)
		many := verifStar(64)
		buildSamplePairs(&many, 8)
		if one[64].SonCount != many[64].SonCount {
			t.Fatalf("round %d: SonCount of the father is %d with 1 worker and %d with 8 workers", round, one[64].SonCount, many[64].SonCount)
		}
	}
}
