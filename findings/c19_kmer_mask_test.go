package obikmer

// Demonstration of a genuine C19 defect on the real code (go test -overlay): in non-sparse mode NormalizedKmerSlice never
// masks the rolling forward word to 2k bits, so from the (k+1)-th base on the "forward k-mer" still carries the bases
// that left the window.  The canonical k-mer is then not min(k-mer, reverse complement) and a sequence and its reverse
// complement do not yield the same multiset of keys.

import (
	"fmt"
	"sort"
	"testing"

	"git.metabarcoding.org/obitools/obitools4/obitools4/pkg/obifp"
	"git.metabarcoding.org/obitools/obitools4/obitools4/pkg/obiseq"
)

func verifKeys(km *KmerMap[obifp.Uint128], s string) []string {
	ks := km.NormalizedKmerSlice(obiseq.NewBioSequence("x", []byte(s), ""), nil)
	var out []string
	for _, k := range ks {
		out = append(out, fmt.Sprintf("%016x%016x", k.RightShift(64).AsUint64(), k.AsUint64()))
	}
	sort.Strings(out)
	return out
}

func TestVerifFindingC19ForwardKmerNotMasked(t *testing.T) {
	km := NewKmerMap[obifp.Uint128](obiseq.BioSequenceSlice{}, 4, false, -1)
	fw := "ttacgaacgtgg"
	rc := obiseq.NewBioSequence("x", []byte(fw), "").ReverseComplement(false).String()
	a, b := verifKeys(km, fw), verifKeys(km, rc)
	same := len(a) == len(b)
	for i := 0; same && i < len(a); i++ {
		same = a[i] == b[i]
	}
	if !same {
		t.Fatalf("k=4, non sparse: canonical keys of %s: %v; of its reverse complement %s: %v", fw, a, rc, b)
	}
}
