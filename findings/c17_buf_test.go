package obiformats

// Demonstration of a genuine C17 defect on the real code (go test -overlay): Buf (behind Ropen) turned ANY
// error of the first reads - not only a clean end of file - into ErrNoContent, which every caller treats as
// "the file is empty" and processes successfully with zero records.

import (
	"errors"
	"testing"
)

type verifFailingReader struct{ data []byte }

var errVerifEIO = errors.New("input/output error")

func (r *verifFailingReader) Read(p []byte) (int, error) {
	if len(r.data) == 0 {
		return 0, errVerifEIO
	}
	n := copy(p, r.data)
	r.data = r.data[n:]
	return n, nil
}

func TestVerifFindingC17BufReadError(t *testing.T) {
	for _, pre := range []string{"", ">", "\x1f", "BZ", "\x28\xb5\x2f"} {
		_, err := Buf(&verifFailingReader{data: []byte(pre)})
		if err == ErrNoContent {
			t.Errorf("read error after %d bytes: Buf answers ErrNoContent (empty file), the error is lost", len(pre))
		}
	}
}
