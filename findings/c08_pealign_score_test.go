package obialign

// Demonstration of a genuine C08 defect on the real code (go test -overlay): in exact mode (fastAlign == false) PEAlign
// computes the two alignment scores but never assigns the score it returns: the reported score is always 0.

import (
	"testing"

	"git.metabarcoding.org/obitools/obitools4/obitools4/pkg/obiseq"
)

func TestVerifFindingC08ExactModeScore(t *testing.T) {
	mk := func(id, s string) *obiseq.BioSequence {
		b := obiseq.NewBioSequence(id, []byte(s), "")
		q := make([]byte, len(s))
		for i := range q {
			q[i] = 40
		}
		b.SetQualities(q)
		return b
	}
	a := mk("a", "acgtacgtacgttgcatgcatgcaacgtgg")
	b := mk("b", "tgcatgcatgcaacgtggttaaccggttaa")
	arena := MakePEAlignArena(100, 100)
	buff := make(map[int]int)
	_, exact, _, _, _, _ := PEAlign(a, b, 2, 1, false, 5, true, arena, &buff)
	_, fast, _, _, _, _ := PEAlign(a, b, 2, 1, true, 5, true, arena, &buff)
	if exact == 0 && fast != 0 {
		t.Fatalf("18 nt error-free overlap: exact mode reports score %d, fast mode reports %d", exact, fast)
	}
}
