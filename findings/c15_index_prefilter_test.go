package obirefidx

// Demonstration of a genuine C15 defect on the real code (go test -overlay): while indexing a reference, IndexSequence
// stops scanning the references of a taxonomic level at the first candidate that shares fewer 4-mers than
// max(len(indexed), len(THAT CANDIDATE)) - 3 - 4*mini.  A long candidate has a high threshold of its own: it triggers the
// break although shorter, closer references ranked after it are still within reach, and their distance is never
// recorded in the index.

import (
	"strconv"
	"strings"
	"testing"

	"git.metabarcoding.org/obitools/obitools4/obitools4/pkg/obikmer"
	"git.metabarcoding.org/obitools/obitools4/obitools4/pkg/obiseq"
	"git.metabarcoding.org/obitools/obitools4/obitools4/pkg/obitax"
)

func verifDNA(n int, seed uint32) []byte {
	s := make([]byte, n)
	x := seed
	for i := range s {
		x = x*1664525 + 1013904223
		s[i] = "acgt"[(x>>24)&3]
	}
	return s
}

func verifMutate(s []byte, pos ...int) []byte {
	r := append([]byte{}, s...)
	for _, p := range pos {
		r[p] = map[byte]byte{'a': 't', 'c': 'g', 'g': 'c', 't': 'a'}[r[p]]
	}
	return r
}

func TestVerifFindingC15IndexPrefilter(t *testing.T) {
	taxo := obitax.NewTaxonomy()
	sci := "scientific name"
	add := func(taxid, parent int, rank, name string) {
		if _, err := taxo.AddNewTaxa(taxid, parent, rank, false, false); err != nil {
			t.Fatal(err)
		}
		n := name
		if err := taxo.AddNewName(taxid, &n, &sci); err != nil {
			t.Fatal(err)
		}
	}
	add(1, 1, "no rank", "root")
	add(10, 1, "family", "Fam")
	add(20, 10, "genus", "Gen")
	add(30, 20, "species", "Gen one")
	add(21, 10, "genus", "Other")
	add(32, 21, "species", "Other one")
	add(33, 21, "species", "Other two")
	add(11, 1, "family", "Faraway")
	add(41, 11, "species", "Faraway one")
	if err := taxo.ReindexParent(); err != nil {
		t.Fatal(err)
	}
	s := verifDNA(100, 3)
	seqs := [][]byte{
		s, // indexed reference, species 30
		verifMutate(s, 40, 41, 42, 60, 61, 62),   // other family: 6 differences (sets the running minimum to 6 at the root level)
		append(append([]byte{}, s...), verifDNA(60, 7)...), // same family, other genus: the indexed sequence + 60 bases (far, but shares all its 4-mers)
		verifMutate(s, 10, 30, 50, 70, 90),       // same family, other genus: 5 scattered differences (closer, fewer shared 4-mers)
	}
	taxids := []int{30, 41, 32, 33}
	refs := obiseq.MakeBioSequenceSlice()
	counts := make([]*obikmer.Table4mer, len(seqs))
	taxa := make(obitax.TaxonSet, len(seqs))
	for i, sq := range seqs {
		r := obiseq.NewBioSequence("ref"+strconv.Itoa(i), sq, "")
		r.SetTaxid(taxids[i])
		refs = append(refs, r)
		counts[i] = obikmer.Count4Mer(r, nil, nil)
		taxa[i], _ = taxo.Taxon(taxids[i])
	}
	idx := IndexSequence(0, refs, &counts, &taxa, taxo)
	e, ok := idx[5]
	if !ok || !strings.HasPrefix(e, "10@") {
		t.Fatalf("a reference of the same family lies at 5 differences: the index should map 5 to family 10, got %v", idx)
	}
}
