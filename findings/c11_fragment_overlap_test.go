package obipcr

// Demonstration for property C11 (completeness of the in-silico PCR when long templates are fragmented).
// CLIPCR cuts templates longer than 1000 x maxLength into windows of 100 x maxLength whose starts are
// `length - overlap` apart.  An amplicon is found only if it lies whole (both priming sites included) inside one
// window, so the overlap has to be at least maxLength + len(forward) + len(reverse).  The repository used
// maxLength + max(len) + min(len)/2: an amplicon of maximal length whose first priming site starts in the last
// (overlap' - overlap) positions before a window start is in no window and is silently lost.
// Drop into pkg/obitools/obipcr (go test -run TestVerifFragmentOverlap).

import (
	"strings"
	"testing"

	"git.metabarcoding.org/obitools/obitools4/obitools4/pkg/obiiter"
	"git.metabarcoding.org/obitools/obitools4/obitools4/pkg/obiseq"
)

func verifRunPCR(t *testing.T, template string, fragmented bool) []string {
	_Fragmented = fragmented
	s := obiseq.NewBioSequence("tpl", []byte(template), "")
	it := obiiter.IBatchOver("test", obiseq.BioSequenceSlice{s}, 10)
	res, err := CLIPCR(it)
	if err != nil {
		t.Fatal(err)
	}
	var out []string
	for res.Next() {
		for _, a := range res.Get().Slice() {
			out = append(out, a.String())
		}
	}
	return out
}

func TestVerifFragmentOverlap(t *testing.T) {
	_ForwardPrimer = "gtgtgcgtacgtagctag"
	_ReversePrimer = "ttcgatcgatcgtgtgca"
	_AllowedMismatch = 0
	_MinimumLength = 0
	_MaximumLength = 20
	_Delta = -1
	_Circular = false
	_OnlyFull = false
	rev := obiseq.NewBioSequence("r", []byte(_ReversePrimer), "").ReverseComplement(false).String()
	barcode := strings.Repeat("c", 20)
	site := _ForwardPrimer + barcode + rev // 56 positions
	length, overlap := 20*100, 20+18+18/2
	step := length - overlap
	missing := 0
	// every start position around the first window boundary
	for a := step - 70; a <= step+10; a++ {
		tpl := strings.Repeat("a", a) + site + strings.Repeat("a", 20*1000+500-a-len(site))
		whole := verifRunPCR(t, tpl, false)
		frag := verifRunPCR(t, tpl, true)
		if len(whole) != 1 {
			t.Fatalf("start %d: %d amplicons on the whole template, expected 1", a, len(whole))
		}
		found := false
		for _, f := range frag {
			if f == barcode {
				found = true
			}
		}
		if !found {
			missing++
			t.Errorf("site starting at %d (window step %d, window length %d): amplicon found on the whole template, LOST when the template is fragmented", a, step, length)
		}
	}
	if missing == 0 {
		t.Log("every amplicon found with and without fragmenting")
	}
}
