package obiformats

// Demonstration of a genuine C01 defect on the real code (go test -overlay): with with_quality=false the FASTQ chunk
// parser still stores the qualities of the LAST record of every chunk (end-of-chunk flush ignores the option), so
// what a record contains depends on where the chunk boundary fell.

import (
	"bytes"
	"testing"
)

func TestVerifFindingC01FastqQualityFlush(t *testing.T) {
	p := FastqChunkParser(33, false)
	rec := "@r1 x\nacgt\n+\nIIII\n@r2 y\nacgt\n+\nIIII"
	seqs, err := p("x", bytes.NewBufferString(rec))
	if err != nil || len(seqs) != 2 {
		t.Skip("unexpected parse")
	}
	if seqs[0].HasQualities() != seqs[1].HasQualities() {
		t.Fatalf("with_quality=false: record r1 has qualities: %v, record r2 (last of the chunk) has qualities: %v",
			seqs[0].HasQualities(), seqs[1].HasQualities())
	}
}
