package obiapat

// Demonstration of a genuine C10 defect on the real code (go test -overlay, package pkg/obiapat), found by the bounded
// harness pattern-matcher (part 5, long patterns): a pattern of 64 positions - the documented maximum, MAX_PAT_LEN -
// compiled without error and then NEVER matched, not even its own exact occurrence (the matcher's state word needs one
// bit per position plus one: `1 << patlen` with patlen == 64 overflows the 64-bit word).  63 positions work.
// Repaired by the commit "fix: patterns longer than 63 positions ..." (they are refused when compiled).

import (
	"strings"
	"testing"

	"git.metabarcoding.org/obitools/obitools4/obitools4/pkg/obiseq"
)

func TestVerifFindingPattern64NeverMatches(t *testing.T) {
	unit := "acgtcagtgcatgcaa"
	for _, L := range []int{63, 64} {
		pat := strings.Repeat(unit, 4)[:L]
		p, err := MakeApatPattern(pat, 0, false)
		if err != nil {
			// after the repair: an explicit refusal is the correct answer for 64
			if L == 64 {
				continue
			}
			t.Fatalf("pattern of %d positions refused: %v", L, err)
		}
		s := "ttttt" + pat + "ggggg"
		aseq, _ := MakeApatSequence(obiseq.NewBioSequence("x", []byte(s), ""), false)
		hits := p.FindAllIndex(aseq, 0, -1)
		if len(hits) != 1 || hits[0][0] != 5 || hits[0][2] != 0 {
			t.Errorf("pattern of %d positions, exact occurrence at 5: hits = %v", L, hits)
		}
	}
}
