package obiformats

// Demonstration of a genuine C01 defect on the real code (go test -overlay): the GenBank and EMBL chunk parsers do
// not reset scientificName / taxid (and the EMBL parser id) at the end of a record.  A record without SOURCE/OS line
// or without /db_xref="taxon:..." silently inherits the values of the record parsed before it BY THE SAME CALL, i.e.
// its content depends on its neighbour and on where the chunk boundary fell.

import (
	"bytes"
	"testing"
)

const verifGB1 = "LOCUS       AAA001                  12 bp    DNA     linear   PLN 01-JAN-2000\n" +
	"DEFINITION  first.\n" +
	"SOURCE      Homo sapiens\n" +
	"FEATURES             Location/Qualifiers\n" +
	"     source          1..12\n" +
	"                     /db_xref=\"taxon:9606\"\n" +
	"ORIGIN\n" +
	"        1 acgtacgtac gt\n" +
	"//\n"

const verifGB2 = "LOCUS       BBB002                  12 bp    DNA     linear   PLN 01-JAN-2000\n" +
	"DEFINITION  second, no taxon.\n" +
	"FEATURES             Location/Qualifiers\n" +
	"     source          1..12\n" +
	"ORIGIN\n" +
	"        1 ttttacgtac gt\n" +
	"//\n"

func TestVerifFindingC01GenbankReset(t *testing.T) {
	p := GenbankChunkParser(false)
	alone, err := p("x", bytes.NewBufferString(verifGB2))
	if err != nil || len(alone) != 1 {
		t.Skip("parser did not accept the record alone")
	}
	both, err := p("x", bytes.NewBufferString(verifGB1+verifGB2))
	if err != nil || len(both) != 2 {
		t.Skip("parser did not accept the two records")
	}
	a, b := alone[0].Annotations(), both[1].Annotations()
	if a["taxid"] != b["taxid"] || a["scientific_name"] != b["scientific_name"] {
		t.Fatalf("record BBB002 parsed alone: taxid=%v name=%q; parsed after AAA001 in the same chunk: taxid=%v name=%q",
			a["taxid"], a["scientific_name"], b["taxid"], b["scientific_name"])
	}
}

const verifEM1 = "ID   AAA001; SV 1; linear; genomic DNA; STD; PLN; 12 BP.\n" +
	"DE   first.\n" +
	"OS   Homo sapiens\n" +
	"FT   source          1..12\n" +
	"FT                   /db_xref=\"taxon:9606\"\n" +
	"SQ   Sequence 12 BP;\n" +
	"     acgtacgtac gt                                                       12\n" +
	"//\n"

const verifEM2 = "ID   BBB002; SV 1; linear; genomic DNA; STD; PLN; 12 BP.\n" +
	"DE   second, no taxon.\n" +
	"FT   source          1..12\n" +
	"SQ   Sequence 12 BP;\n" +
	"     ttttacgtac gt                                                       12\n" +
	"//\n"

func TestVerifFindingC01EmblReset(t *testing.T) {
	p := EmblChunkParser(false)
	alone, err := p("x", bytes.NewBufferString(verifEM2))
	if err != nil || len(alone) != 1 {
		t.Skip("parser did not accept the record alone")
	}
	both, err := p("x", bytes.NewBufferString(verifEM1+verifEM2))
	if err != nil || len(both) != 2 {
		t.Skip("parser did not accept the two records")
	}
	a, b := alone[0].Annotations(), both[1].Annotations()
	if a["taxid"] != b["taxid"] || a["scientific_name"] != b["scientific_name"] {
		t.Fatalf("record BBB002 parsed alone: taxid=%v name=%q; parsed after AAA001 in the same chunk: taxid=%v name=%q",
			a["taxid"], a["scientific_name"], b["taxid"], b["scientific_name"])
	}
}
