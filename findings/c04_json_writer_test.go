package obiformats

// Demonstration of a genuine C04 defect on the real code (run with go test -overlay): the JSON writer wrote no
// ",\n" before chunks taken from its re-sequencing buffer and wrote a separator around empty chunks, so the
// output was not a valid JSON array for out-of-order arrival or empty batches.

import (
	"bytes"
	"encoding/json"
	"testing"
	"time"

	"git.metabarcoding.org/obitools/obitools4/obitools4/pkg/obiiter"
	"git.metabarcoding.org/obitools/obitools4/obitools4/pkg/obiseq"
)

type verifRecWriter struct {
	bytes.Buffer
	closed chan struct{}
}

func (w *verifRecWriter) Close() error { close(w.closed); return nil }

func verifJSONRun(t *testing.T, sizes []int, arrival []int) string {
	it := obiiter.MakeIBioSequence()
	it.Add(1)
	go func() {
		for _, o := range arrival {
			sl := obiseq.MakeBioSequenceSlice()
			for k := 0; k < sizes[o]; k++ {
				sl = append(sl, obiseq.NewBioSequence("s", []byte("acgt"), ""))
			}
			it.Push(obiiter.MakeBioSequenceBatch("verif", o, sl))
		}
		it.Done()
	}()
	go func() { it.WaitAndClose() }()
	w := &verifRecWriter{closed: make(chan struct{})}
	out, err := WriteJSON(it, w, OptionsParallelWorkers(1), OptionCloseFile())
	if err != nil {
		t.Fatal(err)
	}
	for out.Next() {
		out.Get()
	}
	select {
	case <-w.closed:
	case <-time.After(5 * time.Second):
		t.Fatal("writer did not finish")
	}
	return w.String()
}

func TestVerifFindingC04JSON(t *testing.T) {
	for _, c := range []struct {
		sizes   []int
		arrival []int
	}{
		{[]int{1, 1}, []int{1, 0}},       // batch 1 waits in the buffer
		{[]int{1, 0, 1}, []int{0, 1, 2}}, // empty batch in the middle
		{[]int{0, 1}, []int{0, 1}},       // empty first batch
	} {
		txt := verifJSONRun(t, c.sizes, c.arrival)
		var v []map[string]interface{}
		if err := json.Unmarshal([]byte(txt), &v); err != nil {
			t.Errorf("sizes %v arrival %v: output is not a JSON array: %v\n%s", c.sizes, c.arrival, err, txt)
			continue
		}
		n := 0
		for _, s := range c.sizes {
			n += s
		}
		if len(v) != n {
			t.Errorf("sizes %v arrival %v: %d objects, want %d", c.sizes, c.arrival, len(v), n)
		}
	}
}
