package obiformats

// Demonstration of a genuine C18 defect on the real code (run with go test -overlay, nothing is written to the repo):
// a Write error on a chunk taken from the re-sequencing buffer of WriteSeqFileChunk is discarded, the writer
// goroutine closes the file and ends normally - the bytes of that chunk never reach the output.

import (
	"bytes"
	"errors"
	"runtime"
	"testing"
	"time"

	log "github.com/sirupsen/logrus"
)

type verifFailingWriter struct {
	calls  int
	failAt int
	closed chan struct{}
}

func (w *verifFailingWriter) Write(p []byte) (int, error) {
	w.calls++
	if w.calls == w.failAt {
		return 0, errors.New("disk full")
	}
	return len(p), nil
}
func (w *verifFailingWriter) Close() error { close(w.closed); return nil }

var w0 *verifFailingWriter

func TestVerifFindingC18ChunkWriter(t *testing.T) {
	fatal := false
	w := &verifFailingWriter{failAt: 2, closed: make(chan struct{})}
	w0 = w
	log.StandardLogger().ExitFunc = func(int) { fatal = true; close(w0.closed); runtime.Goexit() }
	ch := WriteSeqFileChunk(w, true)
	// arrival order 1, 0: chunk 1 waits in the buffer and is written by the drain loop (2nd Write, which fails)
	ch <- SeqFileChunk{Source: "x", Raw: bytes.NewBufferString("chunk1\n"), Order: 1}
	ch <- SeqFileChunk{Source: "x", Raw: bytes.NewBufferString("chunk0\n"), Order: 0}
	close(ch)
	select {
	case <-w.closed:
	case <-time.After(5 * time.Second):
	}
	if !fatal {
		t.Fatalf("the 2nd Write failed (disk full) but the writer closed the file and finished without reporting anything")
	}
}
