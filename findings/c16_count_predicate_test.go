package obigrep

// Demonstration of a genuine C16 defect on the real code (go test -overlay): CLISequenceCountPredicate tests
// _MaximumLength where _MaximumCount is meant, so --max-count alone is silently ignored (and honoured only when
// --max-length happens to be given as well).

import (
	"testing"

	"git.metabarcoding.org/obitools/obitools4/obitools4/pkg/obiseq"
)

func TestVerifFindingC16MaxCountAlone(t *testing.T) {
	_MinimumCount, _MaximumCount = 1, 5
	_MinimumLength, _MaximumLength = 1, int(2e9)
	s := obiseq.NewBioSequence("x", []byte("acgt"), "")
	s.SetCount(10)
	p := CLISequenceCountPredicate()
	if p == nil || p(s) {
		t.Fatalf("--max-count 5 alone: a record of count 10 is kept (predicate is nil: %v)", p == nil)
	}
}
