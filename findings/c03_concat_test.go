package obiiter

// Demonstration of a genuine C03 defect on the real code (go test -overlay): Concat numbered the batches of the
// stream following an EMPTY first stream from 1 instead of 0 (previous_max = max_order + 1 with max_order
// initialised to 0), so a downstream SortBatches waits for batch 0 for ever and every record is lost.

import (
	"testing"
	"time"

	"git.metabarcoding.org/obitools/obitools4/obitools4/pkg/obiseq"
)

func verifStream(nbatches int) IBioSequence {
	it := MakeIBioSequence()
	it.Add(1)
	go func() {
		for o := 0; o < nbatches; o++ {
			sl := obiseq.MakeBioSequenceSlice()
			sl = append(sl, obiseq.NewBioSequence("s", []byte("acgt"), ""))
			it.Push(MakeBioSequenceBatch("verif", o, sl))
		}
		it.Done()
	}()
	go func() { it.WaitAndClose() }()
	return it
}

func TestVerifFindingC03Concat(t *testing.T) {
	out := verifStream(0).Concat(verifStream(2))
	var orders []int
	done := make(chan struct{})
	go func() {
		for out.Next() {
			orders = append(orders, out.Get().Order())
		}
		close(done)
	}()
	select {
	case <-done:
	case <-time.After(5 * time.Second):
		t.Fatal("timeout")
	}
	if len(orders) != 2 || orders[0] != 0 || orders[1] != 1 {
		t.Fatalf("empty stream ++ 2 batches: output batch numbers %v, want [0 1]", orders)
	}
}
