package obiseq

import (
	"bytes"
	"runtime"
	"runtime/debug"
	"testing"
)

// Replacing the qualities of a sequence and then copying it (or building any
// other sequence) must leave the source untouched: the slices handed out by
// the shared byte-slice pool must never be the live slices of another sequence.
func TestSeedPoolNeverHandsOutLiveQualities(t *testing.T) {
	// keep the sync.Pool history deterministic
	runtime.LockOSThread()
	defer runtime.UnlockOSThread()
	defer debug.SetGCPercent(debug.SetGCPercent(-1))

	raw := []byte("acgtacgtacgtacgtacgt")
	q1 := bytes.Repeat([]byte{40}, len(raw))
	q2 := make([]byte, len(raw))
	for i := range q2 {
		q2[i] = byte(10 + i)
	}

	for attempt := 0; attempt < 20; attempt++ {
		src := NewBioSequenceWithQualities("src", raw, "", q1)
		src.SetQualities(q2) // second assignment: the old slice goes back to the pool

		if !bytes.Equal(src.Qualities(), q2) {
			t.Fatalf("attempt %d: SetQualities stored %v, want %v", attempt, src.Qualities(), q2)
		}

		// derived objects: each one draws slices from the pool
		cp := src.Copy()
		rc := src.ReverseComplement(false)
		sub, err := src.Subsequence(2, 12, false)
		if err != nil {
			t.Fatalf("unexpected error: %v", err)
		}
		other := NewBioSequence("other", []byte("ttttttttttttttttttttttttt"), "")

		if !bytes.Equal(src.Qualities(), q2) {
			t.Fatalf("attempt %d: qualities of the source changed after deriving copies: %v, want %v",
				attempt, []byte(src.Qualities()), q2)
		}
		if src.String() != string(raw) {
			t.Fatalf("attempt %d: nucleotides of the source changed: %s", attempt, src.String())
		}

		// writing into the derived objects must not show in the source
		for _, d := range []*BioSequence{cp, rc, sub, other} {
			for i := range d.sequence {
				d.sequence[i] = 'n'
			}
			for i := range d.qualities {
				d.qualities[i] = 0
			}
		}
		if !bytes.Equal(src.Qualities(), q2) || src.String() != string(raw) {
			t.Fatalf("attempt %d: source changed after writing into derived sequences: %s %v",
				attempt, src.String(), []byte(src.Qualities()))
		}
	}
}
