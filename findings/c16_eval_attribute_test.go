package obiannotate

// Demonstration of a genuine C16 defect on the real code (go test -overlay): EvalAttributeWorker discards the result
// of ChainWorkers, so with several -S key:expression options only ONE expression (which one depends on map order)
// is applied to the records.

import (
	"testing"

	"git.metabarcoding.org/obitools/obitools4/obitools4/pkg/obiseq"
)

func TestVerifFindingC16SeveralSetAttributes(t *testing.T) {
	w := EvalAttributeWorker(map[string]string{"a": "1", "b": "2", "c": "3"})
	s := obiseq.NewBioSequence("x", []byte("acgt"), "")
	out, err := w(s)
	if err != nil || len(out) != 1 {
		t.Skip("unexpected worker result")
	}
	n := 0
	for _, k := range []string{"a", "b", "c"} {
		if out[0].HasAttribute(k) {
			n++
		}
	}
	if n != 3 {
		t.Fatalf("3 attributes requested with -S, %d set on the record", n)
	}
}
