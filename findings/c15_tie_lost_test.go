package obitag

// Demonstration of a genuine C15 defect on the real code (go test -overlay): after a best reference has been found,
// FindClosests stops scanning as soon as a candidate shares fewer 4-mers than max(len(query), len(BEST REFERENCE)) - 3 -
// 4*maxe.  The q-gram bound that justifies the cut must hold for the candidates NOT YET scanned, whose length is not the
// best reference's: when the best reference found first is longer than the query, an equally good, shorter reference
// (fewer shared 4-mers, same distance) is cut off and the tie is lost.

import (
	"strings"
	"testing"

	"git.metabarcoding.org/obitools/obitools4/obitools4/pkg/obikmer"
	"git.metabarcoding.org/obitools/obitools4/obitools4/pkg/obiseq"
)

func TestVerifFindingC15TieLostBehindLongerReference(t *testing.T) {
	core := "acgtagctagcatcgatcgactagctacgatcgatcagctacgatcagcatcgactacgatcagctagcatcgatcgactagc"
	query := obiseq.NewBioSequence("q", []byte(core), "")
	// r0: the query plus 10 extra bases at the end: distance 10, shares every 4-mer of the query
	r0 := obiseq.NewBioSequence("longer", []byte(core+"ttttgggggc"), "")
	// r1: the query with 10 substitutions spread over it: distance 10, shares far fewer 4-mers
	b := []byte(core)
	for k := 0; k < 10; k++ {
		p := 4 + 8*k
		if b[p] == 'a' {
			b[p] = 'c'
		} else {
			b[p] = 'a'
		}
	}
	r1 := obiseq.NewBioSequence("scattered", b, "")
	refs := obiseq.BioSequenceSlice{r0, r1}
	counts := []*obikmer.Table4mer{obikmer.Count4Mer(r0, nil, nil), obikmer.Count4Mer(r1, nil, nil)}
	_, maxe, _, _, idx := FindClosests(query, refs, counts, true)
	if maxe == 10 && len(idx) != 2 {
		t.Fatalf("both references are at distance 10 of the query, FindClosests returns %v (distance %d): %s", idx, maxe, strings.Repeat("", 0))
	}
}
