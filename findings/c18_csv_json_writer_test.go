package obiformats

// Demonstration of a genuine C18 defect on the real code (go test -overlay): the CSV writer (and, before its
// repair, the JSON writer) ignored every Write and Close error: with a device that fails on every call the
// pipeline still finishes normally.

import (
	"errors"
	"runtime"
	"sync/atomic"
	"testing"
	"time"

	"git.metabarcoding.org/obitools/obitools4/obitools4/pkg/obiiter"
	"git.metabarcoding.org/obitools/obitools4/obitools4/pkg/obiseq"
	log "github.com/sirupsen/logrus"
)

type verifBrokenDevice struct{ closed chan struct{} }

func (w *verifBrokenDevice) Write(p []byte) (int, error) { return 0, errors.New("no space left on device") }
func (w *verifBrokenDevice) Close() error {
	select {
	case <-w.closed:
	default:
		close(w.closed)
	}
	return errors.New("no space left on device")
}

func TestVerifFindingC18CSV(t *testing.T) {
	var fatal int32
	done := make(chan struct{})
	log.StandardLogger().ExitFunc = func(int) {
		if atomic.CompareAndSwapInt32(&fatal, 0, 1) {
			close(done)
		}
		runtime.Goexit()
	}
	it := obiiter.MakeIBioSequence()
	it.Add(1)
	go func() {
		sl := obiseq.MakeBioSequenceSlice()
		sl = append(sl, obiseq.NewBioSequence("s", []byte("acgt"), ""))
		it.Push(obiiter.MakeBioSequenceBatch("verif", 0, sl))
		it.Done()
	}()
	go func() { it.WaitAndClose() }()
	w := &verifBrokenDevice{closed: make(chan struct{})}
	out, _ := WriteCSV(it, w, OptionsParallelWorkers(1), OptionCloseFile(), CSVId(true), CSVSequence(true))
	go func() {
		for out.Next() {
			out.Get()
		}
	}()
	select {
	case <-done:
	case <-w.closed:
		time.Sleep(200 * time.Millisecond)
	case <-time.After(5 * time.Second):
	}
	if atomic.LoadInt32(&fatal) == 0 {
		t.Fatalf("every Write and Close failed but the CSV writer finished without reporting anything")
	}
}
