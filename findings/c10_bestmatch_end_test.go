package obiapat

// Demonstration of a genuine C10 defect on the real code (go test -overlay): when indels are allowed and the best hit has
// errors, BestMatch re-aligns the pattern on a window and adds the end of the refined match to the ALREADY UPDATED start:
// the reported end is too far to the right by the offset of the match in the window and can lie beyond the sequence.

import (
	"testing"

	"git.metabarcoding.org/obitools/obitools4/obitools4/pkg/obiseq"
)

func TestVerifFindingC10BestMatchEnd(t *testing.T) {
	p, err := MakeApatPattern("acgt", 1, true)
	if err != nil {
		t.Skip(err)
	}
	s := "aaaacg"
	aseq, _ := MakeApatSequence(obiseq.NewBioSequence("x", []byte(s), ""), false)
	start, end, nerr, ok := p.BestMatch(aseq, 0, -1)
	if ok && (start < 0 || end > len(s) || start > end) {
		t.Fatalf("pattern acgt (1 error, indels) on %s: best match [%d,%d) with %d error(s) lies outside the %d nt sequence", s, start, end, nerr, len(s))
	}
}
