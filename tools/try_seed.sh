#!/bin/bash
# usage: try_seed.sh <patch.diff> <PROP>...   applies the patch to /repo, runs the checks, reverts.
P="$1"; shift
cd /repo && git apply "$P" || { echo "cannot apply"; exit 2; }
for id in "$@"; do (cd /verif && VERIF_NO_EVIDENCE=1 ./check "$id" 2>&1 | grep -E "^(VIOLATION|SUMMARY|BROKEN|KNOWN)" | cut -c1-260); done
cd /repo && git apply -R "$P"
git -C /repo status --short | head -3
