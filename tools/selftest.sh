#!/bin/bash
# Must-fail corpus: every seeded change under /verif/seeded/<PROP>-<n>/ is applied to /repo in turn (git apply), the
# property's quick check must report a VIOLATION, and the patch is reverted straight after.  Exits 1 if a seed is no
# longer detected, if a patch does not apply, or if /repo is not clean afterwards.  Usage: tools/selftest.sh [PROP...]
cd /verif || exit 2
if [ -n "$(git -C /repo status --porcelain)" ]; then echo "selftest: /repo has uncommitted changes, refusing to run"; exit 2; fi
rc=0
for d in seeded/*/; do
  id=$(basename "$d"); prop=${id%%-*}
  if [ $# -gt 0 ]; then case " $* " in *" $prop "*) ;; *) continue;; esac; fi
  p="/verif/$d/patch.diff"
  if ! git -C /repo apply --check "$p" 2>/dev/null; then echo "SELFTEST $id: PATCH-DOES-NOT-APPLY"; rc=1; continue; fi
  git -C /repo apply "$p"
  out=$(VERIF_NO_EVIDENCE=1 ./check "$prop" --tier quick 2>&1 | grep -E "^VIOLATION" | head -1)
  git -C /repo apply -R "$p"
  if [ -n "$(git -C /repo status --porcelain)" ]; then echo "SELFTEST $id: /repo not restored"; git -C /repo checkout -q -- . ; rc=1; fi
  if [ -z "$out" ]; then echo "SELFTEST $id: MISSED"; rc=1; else echo "SELFTEST $id: detected (${out#*obligation=})"; fi
done
# canary: the unchanged tree must be quiet again
for prop in "$@"; do ./check "$prop" --tier quick 2>&1 | grep -E "^(VIOLATION|BROKEN)" && rc=1; done
exit $rc
