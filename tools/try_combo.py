#!/usr/bin/env python3
# usage: try_combo.py <worktree>
# Do the tolerance mechanisms (DESIGN 12.7) mask defects?  Every behaviour-preserving edit of /verif/benign that needed
# one of the mechanisms (it raised an alarm before they existed) is combined with every seeded defect of /verif/seeded
# that touches the same file and still applies on top of it; the seed's property is checked on the combined tree and
# must report a VIOLATION.  Prints COMBO <benign>+<seed> DETECTED|MISSED.
import json, glob, os, re, subprocess, sys
V = os.path.dirname(os.path.dirname(os.path.abspath(__file__)))
wt = sys.argv[1]
def files(p): return set(re.findall(r"^\+\+\+ b/(\S+)", open(p).read(), re.M))
ben = []
for d in sorted(glob.glob(os.path.join(V, "benign", "*"))):
    m = json.load(open(d + "/meta.json"))
    if str(m.get("before_tolerance_mechanisms", "")).startswith("alarm"):
        ben.append(d)
rc = 0
n = 0
for b in ben:
    bf = files(b + "/patch.diff")
    for s in sorted(glob.glob(os.path.join(V, "seeded", "*"))):
        if not (files(s + "/patch.diff") & bf):
            continue
        prop = os.path.basename(s).split("-")[0]
        if subprocess.call(["git", "-C", wt, "apply", b + "/patch.diff"]) != 0:
            continue
        ok = subprocess.call(["git", "-C", wt, "apply", s + "/patch.diff"], stderr=subprocess.DEVNULL) == 0
        if ok:
            n += 1
            env = dict(os.environ, VERIF_REPO=wt, VERIF_NO_EVIDENCE="1")
            out = subprocess.run([os.path.join(V, "check"), prop, "--tier", "quick"], env=env, capture_output=True, text=True).stdout
            v = [l for l in out.splitlines() if l.startswith("VIOLATION")]
            rb = [l for l in out.splitlines() if l.startswith("REBOUND")]
            tag = "DETECTED" if v else "MISSED"
            if not v:
                rc = 1
            ob = re.sub(r".*obligation=", "", v[0])[:110] if v else ""
            print("COMBO", os.path.basename(b) + "+" + os.path.basename(s), tag, ("rebound " if rb else "") + ob, flush=True)
        subprocess.call(["git", "-C", wt, "checkout", "-q", "--", "."])
        subprocess.call(["git", "-C", wt, "clean", "-fdq"])
print("combos:", n)
sys.exit(rc)
