#!/usr/bin/env python3
# Regenerates the data-driven tables of DESIGN.md section 12 from the files the checks write:
#   12.1 status table        <- evidence/*.json
#   12.3 list of fix commits <- known_findings.json ("fixed")
#   12.6 seed table          <- seeded/*/meta.json
# The prose around the tables is left untouched.
import json, glob, re, os, sys

V = os.path.dirname(os.path.dirname(os.path.abspath(__file__)))
d = open(os.path.join(V, "DESIGN.md")).read()


def clip(s, n):
    s = " ".join(str(s).split()).replace("|", "/")
    return s if len(s) <= n else s[: n - 1] + "…"


# ---- 12.1
rows = []
for f in sorted(glob.glob(os.path.join(V, "evidence", "C*.json"))):
    e = json.load(open(f))
    pid = os.path.basename(f)[:-5]
    cov = e.get("coverage", {})
    nf = cov.get("functions_under_contract")
    if isinstance(nf, list):
        nf = len(nf)
    tot = cov.get("obligations")
    dis = cov.get("discharged")
    b = cov.get("bounded_stand_ins") or []
    bn = ", ".join(x.get("name", "?") for x in b) if b else "-"
    rows.append(f"| {pid} | {nf} | {dis}/{tot} | {bn} |")
hdr = "| id | functions / lemmas under contract | obligations discharged (quick tier, unchanged tree) | bounded stand-ins (labelled bounded, never counted as proved) |\n|----|----|----|----|\n"
i = d.index(hdr) + len(hdr)
j = i
while d[j:].startswith("| C"):
    j = d.index("\n", j) + 1
d = d[:i] + "\n".join(rows) + "\n" + d[j:]

# ---- 12.3
k = json.load(open(os.path.join(V, "known_findings.json")))
fixed = ["- " + x[len("fixed: "):] if x.startswith("fixed: ") else "- " + x for x in k.get("fixed", [])]
m = re.search(r"(`known_findings.json` carries the same list \(a `fixed` entry suppresses nothing\)\.\n\n)", d)
i = m.end()
j = d.index("\nKnown findings kept as such", i)
d = d[:i] + "\n".join(fixed) + "\n" + d[j:]

# ---- 12.6
hdr = "| seed | change | result |\n|----|----|----|\n"
i = d.index(hdr) + len(hdr)
j = i
while d[j:].startswith("| C"):
    nl = d.find("\n", j)
    j = len(d) if nl < 0 else nl + 1
rows = []


def key(p):
    b = os.path.basename(os.path.dirname(p))
    a, n = b.split("-")
    return (a, int(n))


for f in sorted(glob.glob(os.path.join(V, "seeded", "*", "meta.json")), key=key):
    mt = json.load(open(f))
    sid = os.path.basename(os.path.dirname(f))
    rows.append(f"| {sid} | {clip(mt.get('what',''), 260)} | {clip(mt.get('check_result',''), 200)} |")
d = d[:i] + "\n".join(rows) + "\n" + d[j:]
# ---- 12.7
hdr = "| edit | class | change | result |\n|----|----|----|----|\n"
if hdr in d:
    i = d.index(hdr) + len(hdr)
    j = i
    while d[j:].startswith("| C"):
        nl = d.find("\n", j)
        j = len(d) if nl < 0 else nl + 1
    brow = []

    def bkey(p):
        b = os.path.basename(os.path.dirname(p))
        a, n = b.split("-")
        return (a, n[0], int(n[1:]))

    for f in sorted(glob.glob(os.path.join(V, "benign", "*", "meta.json")), key=bkey):
        mt = json.load(open(f))
        sid = os.path.basename(os.path.dirname(f))
        brow.append(f"| {sid} | {mt.get('class','')} | {clip(mt.get('what',''), 220)} | {clip(mt.get('check_result',''), 160)}; before: {mt.get('before_tolerance_mechanisms','')} |")
    d = d[:i] + "\n".join(brow) + "\n" + d[j:]
open(os.path.join(V, "DESIGN.md"), "w").write(d)
print("DESIGN.md section 12 tables regenerated:", len(rows), "seeds,", len(fixed), "fixes")
