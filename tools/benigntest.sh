#!/bin/bash
# Must-stay-quiet corpus: every behaviour-preserving edit under /verif/benign/<PROP>-b<k>/ is applied in turn to a scratch
# worktree of /repo's HEAD (made outside /repo and /verif, removed afterwards) and the quick check of every property
# whose packages contain a touched file is run against that tree.  Exits 1 if an edit listed as "quiet" in its meta.json
# raises an alarm.  Edits recorded as "alarm" (known limits, DESIGN.md 12.7) are replayed too and reported, not counted.
# Usage: tools/benigntest.sh [jobs]
cd /verif || exit 2
J=${1:-4}
export GOFLAGS=-mod=mod GOPROXY=off GOSUMDB=off GOTOOLCHAIN=local GOWORK=off
tmp=$(mktemp -d /tmp/verif-benign.XXXXXX)
ls -d /verif/benign/*/ | sed 's|/$||' > $tmp/all
split -n l/$J $tmp/all $tmp/part.
for f in $tmp/part.*; do
  wt=$tmp/wt.$(basename $f)
  git -C /repo worktree add --detach -q $wt HEAD || exit 2
  ( python3 tools/try_benign.py $wt $(sed 's|$|/patch.diff|' $f) > $f.log 2>&1 ) &
done
wait
rc=0
cat $tmp/part.*.log | sort > $tmp/log
while read d; do
  want=$(python3 -c "import json;print(json.load(open('$d/meta.json')).get('check_result','quiet').split()[0])")
  if grep -q "BENIGN $d/patch.diff QUIET" $tmp/log; then got=quiet; else got=alarm; fi
  echo "BENIGNTEST $(basename $d): $got (recorded: $want)"
  if [ "$want" = quiet ] && [ "$got" != quiet ]; then rc=1; grep "$d/patch.diff" $tmp/log | cut -c1-300; fi
done < $tmp/all
for f in $tmp/part.*; do case $f in *.log) ;; *) git -C /repo worktree remove --force $tmp/wt.$(basename $f);; esac; done
git -C /repo worktree prune
rm -rf $tmp
exit $rc
