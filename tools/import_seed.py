#!/usr/bin/env python3
# usage: import_seed.py <PROP> <n> <src-out-dir> <pkg-dir> "<detected summary>"
import sys, json, os, shutil
prop, n, src, pkg, det = sys.argv[1:6]
dst = f"/verif/seeded/{prop}-{n}"
os.makedirs(dst, exist_ok=True)
shutil.copy(os.path.join(src, "patch.diff"), dst)
shutil.copy(os.path.join(src, "demo_test.go"), dst)
m = json.load(open(os.path.join(src, "meta.json")))
m["property"] = prop
m["demo_package_dir"] = pkg
m["confirmed_by_me"] = "tools/confirm_seed.sh in a scratch worktree: patch applies, pkg builds, existing tests unchanged, demo fails with the patch and passes without it"
m["check_result"] = det
json.dump(m, open(os.path.join(dst, "meta.json"), "w"), indent=1)
print("imported", dst)
