#!/bin/bash
# usage: confirm_seed.sh <worktree> <seed-out-dir> <pkg-rel-dir> [test-run-regex]
# Confirms in the scratch worktree: patch applies, package builds, existing tests unchanged, demo fails with / passes without.
export GOFLAGS=-mod=mod GOPROXY=off GOSUMDB=off GOTOOLCHAIN=local GOWORK=off
WT="$1"; OUT="$2"; PKG="$3"; RUN="${4:-.}"
cd "$WT" || exit 2
base() { go test -vet=off -count=1 -v "./$PKG" 2>&1 | grep -E "^(=== RUN|--- (PASS|FAIL)|\s+--- (PASS|FAIL))" | grep -E -- "--- " | sed 's/ (.*//' | sort; }
git checkout -q -- "$PKG" 2>/dev/null
rm -f "$PKG/zz_seed_demo_test.go"
base > /tmp/cs_before.txt
git apply "$OUT/patch.diff" || { echo "PATCH DOES NOT APPLY"; exit 1; }
go build "./pkg/..." 2>/dev/null || { echo "BUILD FAILS"; git checkout -q -- .; exit 1; }
base > /tmp/cs_after.txt
if ! diff -q /tmp/cs_before.txt /tmp/cs_after.txt >/dev/null; then echo "EXISTING TESTS CHANGED"; diff /tmp/cs_before.txt /tmp/cs_after.txt; fi
cp "$OUT/demo_test.go" "$PKG/zz_seed_demo_test.go"
if go test -vet=off -count=1 -timeout 120s -run "$RUN" "./$PKG" >/tmp/cs_demo_with.txt 2>&1; then echo "DEMO PASSES WITH PATCH (bad)"; else echo "demo fails with patch: ok"; fi
git checkout -q -- $(git diff --name-only)
if go test -vet=off -count=1 -timeout 120s -run "$RUN" "./$PKG" >/tmp/cs_demo_without.txt 2>&1; then echo "demo passes without patch: ok"; else echo "DEMO FAILS WITHOUT PATCH (bad)"; tail -5 /tmp/cs_demo_without.txt; fi
rm -f "$PKG/zz_seed_demo_test.go"
