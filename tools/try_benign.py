#!/usr/bin/env python3
# usage: try_benign.py <worktree> <patch.diff>...
# Behaviour-preserving edits must leave every check quiet.  Each patch is applied to <worktree> (a scratch checkout of
# /repo WITH the contract files, outside /repo and /verif), the quick check of every property whose packages contain a
# touched file is run against that tree (VERIF_REPO), and the patch is reverted.  Prints one line per patch:
#   BENIGN <patch> QUIET props=...        or      BENIGN <patch> ALARM <property>: <obligations>
import json, os, re, subprocess, sys
V = os.path.dirname(os.path.dirname(os.path.abspath(__file__)))
props = json.load(open(os.path.join(V, "props.json")))
wt = sys.argv[1]
rc = 0
for patch in sys.argv[2:]:
    files = re.findall(r"^\+\+\+ b/(\S+)", open(patch).read(), re.M)
    dirs = {"./" + os.path.dirname(f) for f in files}
    sel = [p for p, c in sorted(props.items()) if isinstance(c, dict) and dirs & set(c.get("packages", []))]
    if subprocess.call(["git", "-C", wt, "apply", patch]) != 0:
        print("BENIGN", patch, "PATCH-DOES-NOT-APPLY"); rc = 1; continue
    alarms = []
    try:
        for p in sel:
            env = dict(os.environ, VERIF_REPO=wt, VERIF_NO_EVIDENCE="1")
            out = subprocess.run([os.path.join(V, "check"), p, "--tier", "quick"], env=env, capture_output=True, text=True).stdout
            v = [re.sub(r"replay=\S+ ", "", l) for l in out.splitlines() if l.startswith(("VIOLATION", "BROKEN"))]
            if v:
                alarms.append((p, v))
    finally:
        subprocess.call(["git", "-C", wt, "apply", "-R", patch])
    if alarms:
        rc = 1
        for p, v in alarms:
            print("BENIGN", patch, "ALARM", p + ":", " | ".join(x[:200] for x in v[:4]), flush=True)
    else:
        print("BENIGN", patch, "QUIET props=" + ",".join(sel), flush=True)
sys.exit(rc)
