package obiapat

// Bounded stand-in for the primer matcher (property C10) - NOT a proof.  The matcher itself is C code (Manber/Wu),
// outside the reach of the contract machinery; this harness drives the REAL code (C matcher + Go post-processing)
// exhaustively over small inputs against independent oracles:
//  (1) mismatch mode: FindAllIndex reports exactly the positions where the pattern matches with at most maxerr
//      mismatches (IUPAC aware), each with its mismatch count, for every pattern of the list, maxerr 0..2 and every
//      sequence of length <= VERIF_BOUND over {a,c,g,t};
//  (2) reverse complement: the hits of the reverse-complemented pattern on the sequence are the mirror images of the
//      hits of the pattern on the reverse-complemented sequence;
//  (3) indel mode: AllMatches reports a hit iff some substring lies within the edit budget; every span lies inside the
//      sequence and its error count is the edit distance between the pattern and the span, within the budget;
//      BestMatch's span lies inside the sequence with the same guarantee;
//  (4) reverse-complementing a pattern does not change the pattern it was built from, is repeatable and involutive;
//  (5) patterns of 33 to 64 symbols (sampled, not exhaustive): hits against the naive matcher;
//  (6) obligatory positions ('#'): no hit with a mismatch on such a position;
//  (7) bracket classes [..] and negated positions !X (exact matching) against sets computed here, the mirror-image
//      rule for their reverse complement, and a search "to the end" on a sequence much longer than the pattern.
// Injected into pkg/obiapat with `go test -overlay`; nothing is written into the repository.

import (
	"fmt"
	"os"
	"strconv"
	"testing"

	"git.metabarcoding.org/obitools/obitools4/obitools4/pkg/obiseq"
)

var verifIupac = map[byte]string{'a': "a", 'c': "c", 'g': "g", 't': "t", 'r': "ag", 'y': "ct", 'n': "acgt", 'w': "at", 's': "cg", 'k': "gt", 'm': "ac", 'b': "cgt", 'd': "agt", 'h': "act", 'v': "acg"}

func verifBaseMatch(p, s byte) bool {
	for i := 0; i < len(verifIupac[p]); i++ {
		if verifIupac[p][i] == s {
			return true
		}
	}
	return false
}

func verifEdit(pat, s string) int {
	prev := make([]int, len(s)+1)
	for j := range prev {
		prev[j] = j
	}
	for i := 1; i <= len(pat); i++ {
		cur := make([]int, len(s)+1)
		cur[0] = i
		for j := 1; j <= len(s); j++ {
			c := prev[j-1]
			if !verifBaseMatch(pat[i-1], s[j-1]) {
				c++
			}
			if prev[j]+1 < c {
				c = prev[j] + 1
			}
			if cur[j-1]+1 < c {
				c = cur[j-1] + 1
			}
			cur[j] = c
		}
		prev = cur
	}
	return prev[len(s)]
}

func TestVerifBoundedPatternMatcher(t *testing.T) {
	bound := 7
	if v, err := strconv.Atoi(os.Getenv("VERIF_BOUND")); err == nil && v > 0 {
		bound = v
	}
	cases, failures := 0, 0
	first := "-"
	fail := func(msg string) {
		failures++
		if first == "-" {
			first = msg
		}
	}
	patterns := []string{"acgt", "aacc", "gtag", "argt", "acny", "ttttt", "acgta", "gkac", "camt", "tbdg", "ahva"}
	alpha := "acgt"
	var seqs []string
	var gen func(prefix []byte)
	gen = func(prefix []byte) {
		if len(prefix) >= 5 {
			seqs = append(seqs, string(prefix))
		}
		if len(prefix) == bound {
			return
		}
		for i := 0; i < 4; i++ {
			gen(append(prefix, alpha[i]))
		}
	}
	gen(nil)
	rc := func(s string) string {
		return obiseq.NewBioSequence("x", []byte(s), "").ReverseComplement(false).String()
	}
	for _, pat := range patterns {
		for maxerr := 0; maxerr <= 2; maxerr++ {
			p, err := MakeApatPattern(pat, maxerr, false)
			if err != nil {
				continue
			}
			cp, err := p.ReverseComplement()
			if err != nil {
				continue
			}
			pi, erri := MakeApatPattern(pat, maxerr, true)
			// (4) building a reverse complement leaves the pattern it was built from unchanged: same text, a second
			// reverse complement gives the same result, complementing twice gives the pattern back; the indel pattern
			// is complemented BEFORE it is used below, so that its own re-alignment text is exercised afterwards
			before := p.String()
			if cp2, err2 := p.ReverseComplement(); err2 == nil {
				if cp2.String() != cp.String() {
					fail(fmt.Sprintf("pattern=%s,maxerr=%d:second-reverse-complement=%s,first=%s", pat, maxerr, cp2.String(), cp.String()))
				}
			}
			if p.String() != before {
				fail(fmt.Sprintf("pattern=%s,maxerr=%d:pattern-changed-by-reverse-complement=%s", pat, maxerr, p.String()))
			}
			if ccp, err3 := cp.ReverseComplement(); err3 == nil && ccp.String() != before {
				fail(fmt.Sprintf("pattern=%s,maxerr=%d:double-reverse-complement=%s", pat, maxerr, ccp.String()))
			}
			if erri == nil {
				bi := pi.String()
				if _, err4 := pi.ReverseComplement(); err4 == nil && pi.String() != bi {
					fail(fmt.Sprintf("pattern=%s,maxerr=%d:indel-pattern-changed-by-reverse-complement=%s", pat, maxerr, pi.String()))
				}
			}
			for _, s := range seqs {
				if len(s) <= len(pat) {
					continue
				}
				cases++
				func() {
					defer func() {
						if r := recover(); r != nil {
							fail(fmt.Sprintf("pattern=%s,maxerr=%d,seq=%s:panic:%v", pat, maxerr, s, r))
						}
					}()
					aseq, _ := MakeApatSequence(obiseq.NewBioSequence("x", []byte(s), ""), false)
					// (1) mismatch mode
					want := map[int]int{}
					for q := 0; q+len(pat) <= len(s); q++ {
						mm := 0
						for k := 0; k < len(pat); k++ {
							if !verifBaseMatch(pat[k], s[q+k]) {
								mm++
							}
						}
						if mm <= maxerr {
							want[q] = mm
						}
					}
					got := map[int]int{}
					for _, m := range p.FindAllIndex(aseq, 0, -1) {
						if m[0] >= 0 && m[1] <= len(s) { // hits hanging over the ends are a separate, documented behaviour
							got[m[0]] = m[2]
							if m[1] != m[0]+len(pat) {
								fail(fmt.Sprintf("pattern=%s,maxerr=%d,seq=%s:hit=%v:end", pat, maxerr, s, m))
							}
						}
					}
					if fmt.Sprint(got) != fmt.Sprint(want) {
						fail(fmt.Sprintf("pattern=%s,maxerr=%d,seq=%s:hits=%v,want=%v", pat, maxerr, s, got, want))
					}
					// BestMatch without indels: a best match is reported iff some hit exists, with the minimal mismatch count
					{
						bs, be, bn, ok := p.BestMatch(aseq, 0, -1)
						minErr := -1
						for _, e := range want {
							if minErr < 0 || e < minErr {
								minErr = e
							}
						}
						if ok != (len(want) > 0) {
							fail(fmt.Sprintf("pattern=%s,maxerr=%d,seq=%s:bestmatch-matched=%v,hits=%v", pat, maxerr, s, ok, want))
						} else if ok && (bn != minErr || want[bs] != bn || be != bs+len(pat)) {
							fail(fmt.Sprintf("pattern=%s,maxerr=%d,seq=%s:bestmatch=[%d,%d):%d,hits=%v", pat, maxerr, s, bs, be, bn, want))
						}
					}
					// (2) reverse complement symmetry
					rseq, _ := MakeApatSequence(obiseq.NewBioSequence("x", []byte(rc(s)), ""), false)
					mir := map[int]int{}
					for _, m := range cp.FindAllIndex(rseq, 0, -1) {
						if m[0] >= 0 && m[1] <= len(s) {
							mir[len(s)-m[1]] = m[2]
						}
					}
					if fmt.Sprint(mir) != fmt.Sprint(want) {
						fail(fmt.Sprintf("pattern=%s,maxerr=%d,seq=%s:revcomp-hits=%v,want=%v", pat, maxerr, s, mir, want))
					}
					// (3) indel mode
					if erri == nil && maxerr > 0 {
						within := false
						for a := 0; a <= len(s); a++ {
							for b := a; b <= len(s); b++ {
								if verifEdit(pat, s[a:b]) <= maxerr {
									within = true
								}
							}
						}
						all := pi.AllMatches(aseq, 0, -1)
						if (len(all) > 0) != within {
							fail(fmt.Sprintf("pattern=%s,maxerr=%d,seq=%s:indel:reported=%v,substring-within-budget=%v", pat, maxerr, s, all, within))
						}
						for _, m := range all {
							if m[0] < 0 || m[1] > len(s) || m[0] > m[1] {
								fail(fmt.Sprintf("pattern=%s,maxerr=%d,seq=%s:indel:span=%v-outside", pat, maxerr, s, m))
							} else if d := verifEdit(pat, s[m[0]:m[1]]); d != m[2] || d > maxerr {
								fail(fmt.Sprintf("pattern=%s,maxerr=%d,seq=%s:indel:span=%v,distance=%d", pat, maxerr, s, m, d))
							}
						}
						bs, be, bn, ok := pi.BestMatch(aseq, 0, -1)
						if ok {
							if bs < 0 || be > len(s) || bs > be {
								fail(fmt.Sprintf("pattern=%s,maxerr=%d,seq=%s:best:span=[%d,%d)-outside", pat, maxerr, s, bs, be))
							} else if d := verifEdit(pat, s[bs:be]); d != bn {
								fail(fmt.Sprintf("pattern=%s,maxerr=%d,seq=%s:best:span=[%d,%d),reported=%d,distance=%d", pat, maxerr, s, bs, be, bn, d))
							}
						}
					}
				}()
			}
		}
	}
	// (6) obligatory positions ('#' after a symbol: no mismatch allowed there), mismatch mode: hits of AC#GT, A#CGT#
	// and ACG#T with up to 2 errors against the naive matcher that refuses a mismatch on a '#' position
	for _, spec := range []struct {
		pat  string
		core string
		obl  []bool
	}{{"ac#gt", "acgt", []bool{false, true, false, false}}, {"a#cgt#", "acgt", []bool{true, false, false, true}}, {"acg#t", "acgt", []bool{false, false, true, false}}} {
		for maxerr := 0; maxerr <= 2; maxerr++ {
			p, err := MakeApatPattern(spec.pat, maxerr, false)
			if err != nil {
				fail(fmt.Sprintf("pattern=%s:cannot-compile:%v", spec.pat, err))
				continue
			}
			for _, s := range seqs {
				if len(s) <= len(spec.core) {
					continue
				}
				cases++
				aseq, _ := MakeApatSequence(obiseq.NewBioSequence("x", []byte(s), ""), false)
				want := map[int]int{}
				for q := 0; q+len(spec.core) <= len(s); q++ {
					mm, bad := 0, false
					for k := 0; k < len(spec.core); k++ {
						if spec.core[k] != s[q+k] {
							mm++
							if spec.obl[k] {
								bad = true
							}
						}
					}
					if mm <= maxerr && !bad {
						want[q] = mm
					}
				}
				got := map[int]int{}
				for _, m := range p.FindAllIndex(aseq, 0, -1) {
					if m[1] <= len(s) {
						got[m[0]] = m[2]
					}
				}
				if fmt.Sprint(got) != fmt.Sprint(want) {
					fail(fmt.Sprintf("pattern=%s,maxerr=%d,seq=%s:hits=%v,want=%v", spec.pat, maxerr, s, got, want))
				}
			}
		}
	}
	// (5) long patterns (33, 40, 50, 63 symbols, and 64 which must be refused: beyond one 32-bit word of the matcher's bit masks): the pattern,
	// with 0..maxerr substitutions, planted at the start, in the middle and at the end of a sequence; all the hits of
	// FindAllIndex against the naive matcher
	{
		x := uint32(12345)
		rnd := func(n int) string {
			b := make([]byte, n)
			for i := range b {
				x = x*1664525 + 1013904223
				b[i] = "acgt"[(x>>24)&3]
			}
			return string(b)
		}
		for _, L := range []int{33, 40, 50, 63, 64} {
			pat := rnd(L)
			for maxerr := 0; maxerr <= 2; maxerr++ {
				p, err := MakeApatPattern(pat, maxerr, false)
				if L >= 64 {
					// one bit per position plus one in a 64-bit word: 63 positions is the matcher's limit; a longer
					// pattern must be REFUSED, not compiled into something that never matches
					cases++
					if err == nil {
						fail(fmt.Sprintf("long-pattern=%d:compiled-although-beyond-the-matcher-limit", L))
					}
					continue
				}
				if err != nil {
					fail(fmt.Sprintf("long-pattern=%d:cannot-compile:%v", L, err))
					continue
				}
				for nmut := 0; nmut <= maxerr; nmut++ {
					occ := []byte(pat)
					for m := 0; m < nmut; m++ {
						q := (m*17 + 3) % L
						if occ[q] == 'a' {
							occ[q] = 'c'
						} else {
							occ[q] = 'a'
						}
					}
					for _, fl := range [][2]int{{0, 9}, {7, 7}, {11, 0}} {
						s := rnd(fl[0]) + string(occ) + rnd(fl[1])
						cases++
						aseq, _ := MakeApatSequence(obiseq.NewBioSequence("x", []byte(s), ""), false)
						want := map[int]int{}
						for q := 0; q+L <= len(s); q++ {
							mm := 0
							for k := 0; k < L; k++ {
								if pat[k] != s[q+k] {
									mm++
								}
							}
							if mm <= maxerr {
								want[q] = mm
							}
						}
						got := map[int]int{}
						for _, m := range p.FindAllIndex(aseq, 0, -1) {
							if m[1] <= len(s) {
								got[m[0]] = m[2]
							}
						}
						if fmt.Sprint(got) != fmt.Sprint(want) {
							fail(fmt.Sprintf("long-pattern=%d,maxerr=%d,mutations=%d,flanks=%v:hits=%v,want=%v", L, maxerr, nmut, fl, got, want))
						}
					}
				}
			}
		}
	}
	// (7) bracket classes and negated positions (exact matching), their reverse complement, and a search "to the end"
	// of a sequence much longer than the pattern
	{
		parse := func(p string) []string {
			var sets []string
			neg := false
			for i := 0; i < len(p); i++ {
				c := p[i]
				set := ""
				switch {
				case c == '!':
					neg = true
					continue
				case c == '#':
					continue
				case c == '[':
					j := i + 1
					for ; p[j] != ']'; j++ {
						set += verifIupac[p[j]|32]
					}
					i = j
				default:
					set = verifIupac[c|32]
				}
				if neg {
					inv := ""
					for _, b := range []byte("acgt") {
						in := false
						for k := 0; k < len(set); k++ {
							if set[k] == b {
								in = true
							}
						}
						if !in {
							inv += string(b)
						}
					}
					set = inv
					neg = false
				}
				sets = append(sets, set)
			}
			return sets
		}
		hits := func(p ApatPattern, s string) map[int]bool {
			aseq, _ := MakeApatSequence(obiseq.NewBioSequence("x", []byte(s), ""), false)
			got := map[int]bool{}
			for _, m := range p.FindAllIndex(aseq, 0, -1) {
				if m[1] <= len(s) {
					got[m[0]] = true
				}
			}
			return got
		}
		var seqs []string
		var gen func(p []byte)
		gen = func(p []byte) {
			if len(p) == 6 {
				seqs = append(seqs, string(p))
				return
			}
			for i := 0; i < 4; i++ {
				gen(append(p, "acgt"[i]))
			}
		}
		gen(nil)
		for _, pat := range []string{"AC[CT]GA", "ACTG[ACG]", "[AG]CGT", "A!CGT", "!ACGT", "!GA#TC", "AC!GT", "C[AT]!G"} {
			sets := parse(pat)
			p, err := MakeApatPattern(pat, 0, false)
			if err != nil {
				fail("class-pattern=" + pat + ":cannot-compile")
				continue
			}
			rc, err := p.ReverseComplement()
			if err != nil {
				cases++
				fail("class-pattern=" + pat + ":cannot-complement")
			}
			for _, s := range seqs {
				cases++
				want := map[int]bool{}
				for q := 0; q+len(sets) <= len(s); q++ {
					ok := true
					for k := range sets {
						in := false
						for x := 0; x < len(sets[k]); x++ {
							if sets[k][x] == s[q+k] {
								in = true
							}
						}
						if !in {
							ok = false
						}
					}
					if ok {
						want[q] = true
					}
				}
				got := hits(p, s)
				if fmt.Sprint(got) != fmt.Sprint(want) {
					fail(fmt.Sprintf("class-pattern=%s,seq=%s:hits=%v,want=%v", pat, s, got, want))
				}
				if err == nil {
					// the complemented pattern on s finds the mirror images of the hits of the pattern on revcomp(s)
					rs := obiseq.NewBioSequence("x", []byte(s), "").ReverseComplement(false).String()
					mir := map[int]bool{}
					for q := range hits(p, rs) {
						mir[len(s)-q-len(sets)] = true
					}
					if gotrc := hits(rc, s); fmt.Sprint(gotrc) != fmt.Sprint(mir) {
						fail(fmt.Sprintf("class-pattern=%s,seq=%s:complemented-hits=%v,mirror=%v", pat, s, gotrc, mir))
					}
				}
			}
		}
		// search to the end (length < 0) of a sequence much longer than the pattern
		long := make([]byte, 220)
		for i := range long {
			long[i] = "acg"[(i*7+i/5)%3]
		}
		for _, q := range []int{10, 90, 150, 200} {
			copy(long[q:], "acgtt")
		}
		cases++
		p, _ := MakeApatPattern("ACGTT", 0, false)
		want := map[int]bool{}
		for q := 0; q+5 <= len(long); q++ {
			if string(long[q:q+5]) == "acgtt" {
				want[q] = true
			}
		}
		if got := hits(p, string(long)); fmt.Sprint(got) != fmt.Sprint(want) {
			fail(fmt.Sprintf("search-to-the-end:hits=%v,want=%v", got, want))
		}
	}
	fmt.Printf("VERIF-BOUNDED name=pattern-matcher bound=%d cases=%d failures=%d first=%s\n", bound, cases, failures, first)
	if failures > 0 {
		t.Fail()
	}
}
