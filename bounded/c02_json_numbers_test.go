package obiformats

// Bounded stand-in for "numeric annotations keep their value through the JSON header" (property C02) - NOT a proof.
// The conversions float64 <-> int applied by _parse_json_header_ to the numbers json.Unmarshal returns are
// uninterpreted in the generator (no range reasoning on floating point), so the real code is run instead:
// for every power of two 2^k, k = 0..VERIF_BOUND, the values +-2^k, +-(2^k - 1), +-(2^k + 1), +-1.5*2^k and
// +-(2^k + 0.5) (as float64, and as int when integral and |x| <= 2^53 - the range of ints C02 states; an int
// beyond 2^53 comes back as the float64 of the same value and is printed in float style the second time: outside C02), plus 0, 1e19, -3e19, 1.5e300 and 5e-324:
//   - format the header of a record carrying the value, parse it on a fresh record: the annotation read back is a
//     number equal to the one written;
//   - formatting the record read back gives the same header text (fixed point).
// Injected into pkg/obiformats with `go test -overlay`; nothing is written into the repository.

import (
	"fmt"
	"math"
	"os"
	"reflect"
	"strconv"
	"testing"

	"git.metabarcoding.org/obitools/obitools4/obitools4/pkg/obiseq"
)

func verifAsFloat(v interface{}) (float64, bool) {
	rv := reflect.ValueOf(v)
	switch rv.Kind() {
	case reflect.Float32, reflect.Float64:
		return rv.Float(), true
	case reflect.Int, reflect.Int8, reflect.Int16, reflect.Int32, reflect.Int64:
		return float64(rv.Int()), true
	case reflect.Uint, reflect.Uint8, reflect.Uint16, reflect.Uint32, reflect.Uint64:
		return float64(rv.Uint()), true
	}
	return 0, false
}

func TestVerifBoundedJsonNumbers(t *testing.T) {
	bound := 80
	if v, err := strconv.Atoi(os.Getenv("VERIF_BOUND")); err == nil && v > 0 {
		bound = v
	}
	if bound > 1023 {
		bound = 1023
	}
	cases, failures := 0, 0
	first := "-"
	fail := func(msg string) {
		failures++
		if first == "-" {
			first = msg
		}
	}
	values := []interface{}{0, 0.0, 1e19, -3e19, 1.5e300, 5e-324, 0.25, -17.0}
	for k := 0; k <= bound; k++ {
		p := math.Ldexp(1, k)
		for _, f := range []float64{p, p - 1, p + 1, 1.5 * p, p + 0.5} {
			if math.IsInf(f, 0) {
				continue
			}
			values = append(values, f, -f)
			if math.Abs(f) <= 9007199254740992 && f == math.Floor(f) { // ints: |x| <= 2^53, the range C02 states
				values = append(values, int(f), -int(f))
			}
		}
	}
	for _, v := range values {
		cases++
		func() {
			defer func() {
				if r := recover(); r != nil {
					fail(fmt.Sprintf("value=%v(%T):panic:%v", v, v, r))
				}
			}()
			written := obiseq.NewBioSequence("seq_1", []byte("acgtacgt"), "")
			written.SetAttribute("x", v)
			header := fmt.Sprint(FormatFastSeqJsonHeader(written))
			read := obiseq.NewBioSequence("seq_1", []byte("acgtacgt"), header)
			ParseFastSeqJsonHeader(read)
			got, ok := read.GetAttribute("x")
			if !ok {
				fail(fmt.Sprintf("value=%v(%T):annotation lost,header=%s", v, v, header))
				return
			}
			want, _ := verifAsFloat(v)
			have, isnum := verifAsFloat(got)
			if !isnum || have != want {
				fail(fmt.Sprintf("value=%v(%T):read back %v(%T),header=%s", v, v, got, got, header))
				return
			}
			if again := fmt.Sprint(FormatFastSeqJsonHeader(read)); again != header {
				fail(fmt.Sprintf("value=%v(%T):second formatting %s differs from the first %s", v, v, again, header))
			}
		}()
	}
	fmt.Printf("VERIF-BOUNDED name=json-numbers bound=%d cases=%d failures=%d first=%s\n", bound, cases, failures, first)
	if failures > 0 {
		t.Fail()
	}
}
