package obialign

// Bounded stand-in for LocatePattern (property C10, indel refinement of a primer hit) - NOT a proof.
// Exhaustive over all patterns of length 1..4 and all sequences of length <= VERIF_BOUND over {a,c,g} (pattern shorter
// than the sequence): the span returned lies inside the sequence, the error count equals the edit distance between the
// pattern and that span (independent Levenshtein), and equals the minimum over ALL substrings of the sequence.
// Injected into pkg/obialign with `go test -overlay`; nothing is written into the repository.

import (
	"fmt"
	"os"
	"strconv"
	"testing"
)

func verifLev(a, b string) int {
	prev := make([]int, len(b)+1)
	for j := range prev {
		prev[j] = j
	}
	for i := 1; i <= len(a); i++ {
		cur := make([]int, len(b)+1)
		cur[0] = i
		for j := 1; j <= len(b); j++ {
			c := prev[j-1]
			if a[i-1] != b[j-1] {
				c++
			}
			if prev[j]+1 < c {
				c = prev[j] + 1
			}
			if cur[j-1]+1 < c {
				c = cur[j-1] + 1
			}
			cur[j] = c
		}
		prev = cur
	}
	return prev[len(b)]
}

func TestVerifBoundedLocatePattern(t *testing.T) {
	bound := 6
	if v, err := strconv.Atoi(os.Getenv("VERIF_BOUND")); err == nil && v > 0 {
		bound = v
	}
	cases, failures := 0, 0
	first := "-"
	fail := func(msg string) {
		failures++
		if first == "-" {
			first = msg
		}
	}
	alpha := "acg"
	var words func(n int) []string
	words = func(n int) []string {
		if n == 0 {
			return []string{""}
		}
		var out []string
		for _, w := range words(n - 1) {
			for i := 0; i < len(alpha); i++ {
				out = append(out, w+string(alpha[i]))
			}
		}
		return out
	}
	for lp := 1; lp <= 4; lp++ {
		for _, pat := range words(lp) {
			for ls := lp + 1; ls <= bound; ls++ {
				for _, seq := range words(ls) {
					cases++
					func() {
						defer func() {
							if r := recover(); r != nil {
								fail(fmt.Sprintf("pattern=%s,seq=%s:panic:%v", pat, seq, r))
							}
						}()
						from, to, nerr := LocatePattern("x", []byte(pat), []byte(seq))
						if from < 0 || to > len(seq) || from > to {
							fail(fmt.Sprintf("pattern=%s,seq=%s:span=[%d,%d)", pat, seq, from, to))
							return
						}
						if d := verifLev(pat, seq[from:to]); d != nerr {
							fail(fmt.Sprintf("pattern=%s,seq=%s:span=[%d,%d),reported=%d,distance=%d", pat, seq, from, to, nerr, d))
							return
						}
						best := len(pat)
						for a := 0; a <= len(seq); a++ {
							for b := a; b <= len(seq); b++ {
								if d := verifLev(pat, seq[a:b]); d < best {
									best = d
								}
							}
						}
						if best != nerr {
							fail(fmt.Sprintf("pattern=%s,seq=%s:reported=%d,minimum=%d", pat, seq, nerr, best))
						}
					}()
				}
			}
		}
	}
	fmt.Printf("VERIF-BOUNDED name=locate-pattern bound=%d cases=%d failures=%d first=%s\n", bound, cases, failures, first)
	if failures > 0 {
		t.Fail()
	}
}
