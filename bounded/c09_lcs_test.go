package obialign

// Bounded stand-in for the LCS kernel (property C09) - NOT a proof.
// Exhaustive over all pairs of sequences of length <= VERIF_BOUND over the alphabet {a,c,g,r}
// (r is the IUPAC code for a|g, so ambiguity matching is exercised), every error bound from -1 to
// lA+lB, fresh and re-used work buffers, against the textbook dynamic program for
// (maximal number of matching columns, then minimal number of columns).
// Injected into pkg/obialign with `go test -overlay`; nothing is written into the repository.

import (
	"fmt"
	"os"
	"strconv"
	"testing"
)

func verifMatch(a, b byte) bool {
	set := func(c byte) int {
		switch c {
		case 'a':
			return 1
		case 'c':
			return 2
		case 'g':
			return 4
		case 't':
			return 8
		case 'r':
			return 5
		}
		return 0
	}
	return set(a)&set(b) != 0
}

// oracle: lexicographic optimum (max matches, min columns) over all global alignments
func verifOracle(a, b []byte) (int, int) {
	type cell struct{ s, l int }
	better := func(x, y cell) bool { return x.s > y.s || (x.s == y.s && x.l < y.l) }
	la, lb := len(a), len(b)
	m := make([][]cell, la+1)
	for i := range m {
		m[i] = make([]cell, lb+1)
	}
	for i := 0; i <= la; i++ {
		for j := 0; j <= lb; j++ {
			if i == 0 && j == 0 {
				continue
			}
			best := cell{-1, 1 << 30}
			if i > 0 {
				c := cell{m[i-1][j].s, m[i-1][j].l + 1}
				if better(c, best) {
					best = c
				}
			}
			if j > 0 {
				c := cell{m[i][j-1].s, m[i][j-1].l + 1}
				if better(c, best) {
					best = c
				}
			}
			if i > 0 && j > 0 {
				c := cell{m[i-1][j-1].s, m[i-1][j-1].l + 1}
				if verifMatch(a[i-1], b[j-1]) {
					c.s++
				}
				if better(c, best) {
					best = c
				}
			}
			m[i][j] = best
		}
	}
	return m[la][lb].s, m[la][lb].l
}

func TestVerifBoundedLCS(t *testing.T) {
	bound := 3
	if v, err := strconv.Atoi(os.Getenv("VERIF_BOUND")); err == nil && v > 0 {
		bound = v
	}
	alphabet := []byte("acgr")
	var seqs [][]byte
	var gen func(cur []byte)
	gen = func(cur []byte) {
		seqs = append(seqs, append([]byte{}, cur...))
		if len(cur) == bound {
			return
		}
		for _, c := range alphabet {
			gen(append(cur, c))
		}
	}
	gen(nil)
	cases, failures := 0, 0
	first := ""
	fail := func(msg string) {
		failures++
		if first == "" {
			first = msg
		}
	}
	shared := make([]uint64, 0)
	for _, a := range seqs {
		for _, b := range seqs {
			lcs, ali := verifOracle(a, b)
			diff := ali - lcs
			for maxe := -1; maxe <= len(a)+len(b); maxe++ {
				for pass := 0; pass < 2; pass++ {
					var buf *[]uint64
					if pass == 1 {
						buf = &shared
					}
					cases++
					s, l, _ := FastLCSEGFScoreByte(a, b, maxe, false, buf)
					if maxe == -1 || diff <= maxe {
						if s != lcs || l != ali {
							fail(fmt.Sprintf("FastLCSEGFScoreByte(%q,%q,maxError=%d,endgapfree=false,reusedBuffer=%v) = (%d,%d), exact answer (%d,%d)", a, b, maxe, pass == 1, s, l, lcs, ali))
						}
					} else if !(s == -1 && l == -1) && l-s <= maxe {
						fail(fmt.Sprintf("FastLCSEGFScoreByte(%q,%q,maxError=%d,endgapfree=false,reusedBuffer=%v) = (%d,%d): spurious within-bound answer, exact answer (%d,%d) has %d differences", a, b, maxe, pass == 1, s, l, lcs, ali, diff))
					}
				}
			}
		}
	}
	fmt.Printf("VERIF-BOUNDED name=lcs-kernel bound=%d cases=%d failures=%d first=%s\n", bound, cases, failures, first)
}
