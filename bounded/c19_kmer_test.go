package obikmer

// Bounded stand-in for the canonical k-mers of the k-mer index (property C19) - NOT a proof.
// Exhaustive over all sequences of length <= VERIF_BOUND over {a,c,g,t} (plus sequences with one ambiguity code 'n'),
// for every k-mer size 2..6 requested, sparse and non sparse, with KmerMap[obifp.Uint128]:
//   (1) NormalizedKmerSlice(seq) lists, in order, one key per window without ambiguity code, each equal to the smaller
//       of the window and its reverse complement encoded 2 bits per base (central base removed in sparse mode) - computed
//       here from the strings, independently of the rolling words of the code;
//   (2) a sequence and its reverse complement yield the same multiset of keys.
// Injected into pkg/obikmer with `go test -overlay`; nothing is written into the repository.

import (
	"fmt"
	"os"
	"sort"
	"strconv"
	"testing"

	"git.metabarcoding.org/obitools/obitools4/obitools4/pkg/obifp"
	"git.metabarcoding.org/obitools/obitools4/obitools4/pkg/obiseq"
)

func verifEnc(w string) uint64 {
	v := uint64(0)
	for i := 0; i < len(w); i++ {
		v <<= 2
		switch w[i] {
		case 'c':
			v |= 1
		case 'g':
			v |= 2
		case 't':
			v |= 3
		}
	}
	return v
}

func verifRC(w string) string {
	comp := map[byte]byte{'a': 't', 'c': 'g', 'g': 'c', 't': 'a', 'n': 'n'}
	b := make([]byte, len(w))
	for i := 0; i < len(w); i++ {
		b[len(w)-1-i] = comp[w[i]]
	}
	return string(b)
}

func verifCanon(w string, sparseAt int) uint64 {
	sp := func(x string) string {
		if sparseAt < 0 {
			return x
		}
		return x[:sparseAt] + x[sparseAt+1:]
	}
	f, r := verifEnc(sp(w)), verifEnc(sp(verifRC(w)))
	if f < r {
		return f
	}
	return r
}

func verifKmerKeys(km *KmerMap[obifp.Uint128], s string) []uint64 {
	ks := km.NormalizedKmerSlice(obiseq.NewBioSequence("x", []byte(s), ""), nil)
	out := make([]uint64, 0, len(ks))
	for _, k := range ks {
		if k.RightShift(64).AsUint64() != 0 {
			out = append(out, ^uint64(0)) // a key above 64 bits is wrong for k <= 6
		} else {
			out = append(out, k.AsUint64())
		}
	}
	return out
}

func TestVerifBoundedKmerIndex(t *testing.T) {
	bound := 7
	if v, err := strconv.Atoi(os.Getenv("VERIF_BOUND")); err == nil && v > 0 {
		bound = v
	}
	cases, failures := 0, 0
	first := "-"
	fail := func(msg string) {
		failures++
		if first == "-" {
			first = msg
		}
	}
	type cfg struct {
		k      uint
		sparse bool
	}
	for _, c := range []cfg{{2, false}, {4, false}, {6, false}, {3, true}, {5, true}} {
		km := NewKmerMap[obifp.Uint128](obiseq.BioSequenceSlice{}, c.k, c.sparse, -1)
		k := int(km.Kmersize)
		alpha := "acgt"
		var rec func(prefix []byte, withN bool)
		rec = func(prefix []byte, withN bool) {
			if len(prefix) >= k {
				s := string(prefix)
				cases++
				got := verifKmerKeys(km, s)
				var want []uint64
				for i := 0; i+k <= len(s); i++ {
					w := s[i : i+k]
					amb := false
					for j := 0; j < k; j++ {
						if w[j] == 'n' {
							amb = true
						}
					}
					if !amb {
						want = append(want, verifCanon(w, km.SparseAt))
					}
				}
				if fmt.Sprint(got) != fmt.Sprint(want) {
					fail(fmt.Sprintf("k=%d,sparse=%v,seq=%s:got=%v,want=%v", k, c.sparse, s, got, want))
				}
				rc := verifKmerKeys(km, verifRC(s))
				a := append([]uint64{}, got...)
				sort.Slice(a, func(i, j int) bool { return a[i] < a[j] })
				sort.Slice(rc, func(i, j int) bool { return rc[i] < rc[j] })
				if fmt.Sprint(a) != fmt.Sprint(rc) {
					fail(fmt.Sprintf("k=%d,sparse=%v,seq=%s:strand-asymmetric-keys", k, c.sparse, s))
				}
			}
			if len(prefix) == bound {
				return
			}
			for i := 0; i < 4; i++ {
				rec(append(prefix, alpha[i]), withN)
			}
			if !withN {
				rec(append(prefix, 'n'), true)
			}
		}
		rec(nil, false)
	}
	// k-mers wider than one machine word (two limbs of Uint128 in use): periodic sequences of length k+3 built from every
	// unit of length <= min(bound, 6); keys are decoded back to strings and compared with the lexicographic minimum of
	// the window and its reverse complement (same order as the 2-bit encoding)
	decodeKey := func(key obifp.Uint128, n int) string {
		b := make([]byte, n)
		for i := n - 1; i >= 0; i-- {
			b[i] = "acgt"[key.AsUint64()&3]
			key = key.RightShift(2)
		}
		if key.AsUint64() != 0 {
			return "overflow"
		}
		return string(b)
	}
	ub := bound
	if ub > 6 {
		ub = 6
	}
	for _, c := range []cfg{{34, false}, {62, false}, {33, true}, {61, true}} {
		km := NewKmerMap[obifp.Uint128](obiseq.BioSequenceSlice{}, c.k, c.sparse, -1)
		k := int(km.Kmersize)
		var units func(prefix []byte)
		units = func(prefix []byte) {
			if len(prefix) > 0 {
				seq := make([]byte, k+3)
				for i := range seq {
					seq[i] = prefix[i%len(prefix)]
				}
				s := string(seq)
				cases++
				ks := km.NormalizedKmerSlice(obiseq.NewBioSequence("x", []byte(s), ""), nil)
				if len(ks) != 4 {
					fail(fmt.Sprintf("k=%d,sparse=%v,seq=%s:nkeys=%d", k, c.sparse, s, len(ks)))
				}
				sp := func(x string) string {
					if km.SparseAt < 0 {
						return x
					}
					return x[:km.SparseAt] + x[km.SparseAt+1:]
				}
				for i := 0; i < len(ks) && i+k <= len(s); i++ {
					f, r := sp(s[i:i+k]), sp(verifRC(s[i:i+k]))
					want := f
					if r < f {
						want = r
					}
					if got := decodeKey(ks[i], len(want)); got != want {
						fail(fmt.Sprintf("k=%d,sparse=%v,seq=%s,window=%d:got=%s,want=%s", k, c.sparse, s, i, got, want))
					}
				}
			}
			if len(prefix) == ub {
				return
			}
			for i := 0; i < 4; i++ {
				units(append(prefix, "acgt"[i]))
			}
		}
		units(nil)
	}
	fmt.Printf("VERIF-BOUNDED name=kmer-index bound=%d cases=%d failures=%d first=%s\n", bound, cases, failures, first)
	if failures > 0 {
		t.Fail()
	}
}

// Bounded stand-in for the 4-mer tables (property C19) - NOT a proof.
// Exhaustive over all sequences of length <= VERIF_BOUND over {a,c,g,t}: Encode4mer lists the 4-mers in order (code =
// the four base codes, 2 bits each), Count4Mer counts each of the 256 words exactly (fresh and re-used buffers/tables),
// Common4Mer is the sum of the pairwise minima (checked on consecutive sequences of the enumeration).
func TestVerifBounded4mer(t *testing.T) {
	bound := 7
	if v, err := strconv.Atoi(os.Getenv("VERIF_BOUND")); err == nil && v > 0 {
		bound = v
	}
	cases, failures := 0, 0
	first := "-"
	fail := func(msg string) {
		failures++
		if first == "-" {
			first = msg
		}
	}
	var buf []byte
	var table Table4mer
	var prevWant [256]int
	havePrev := false
	var prevTable Table4mer
	alpha := "acgt"
	var rec func(prefix []byte)
	rec = func(prefix []byte) {
		s := string(prefix)
		cases++
		func() {
			defer func() {
				if r := recover(); r != nil {
					fail(fmt.Sprintf("seq=%q:panic:%v", s, r))
				}
			}()
			seq := obiseq.NewBioSequence("x", []byte(s), "")
			var want []byte
			var wantCount [256]int
			for i := 0; i+4 <= len(s); i++ {
				c := byte(verifEnc(s[i : i+4]))
				want = append(want, c)
				wantCount[c]++
			}
			got := Encode4mer(seq, nil)
			got2 := Encode4mer(seq, &buf)
			if string(got) != string(want) || string(got2) != string(want) {
				fail(fmt.Sprintf("seq=%q:encode:got=%v,want=%v", s, got, want))
			}
			fresh := Count4Mer(seq, nil, nil)
			reused := Count4Mer(seq, &buf, &table)
			for w := 0; w < 256; w++ {
				if int(fresh[w]) != wantCount[w] || int(reused[w]) != wantCount[w] {
					fail(fmt.Sprintf("seq=%q:count[%d]:got=%d/%d,want=%d", s, w, fresh[w], reused[w], wantCount[w]))
					break
				}
			}
			if havePrev {
				sum := 0
				for w := 0; w < 256; w++ {
					m := wantCount[w]
					if prevWant[w] < m {
						m = prevWant[w]
					}
					sum += m
				}
				if c := Common4Mer(fresh, &prevTable); c != sum {
					fail(fmt.Sprintf("seq=%q:common:got=%d,want=%d", s, c, sum))
				}
			}
			prevWant, prevTable, havePrev = wantCount, *fresh, true
		}()
		if len(prefix) == bound {
			return
		}
		for i := 0; i < 4; i++ {
			rec(append(prefix, alpha[i]))
		}
	}
	rec(nil)
	fmt.Printf("VERIF-BOUNDED name=fourmer-tables bound=%d cases=%d failures=%d first=%s\n", bound, cases, failures, first)
	if failures > 0 {
		t.Fail()
	}
}
