package obiclean

// Bounded stand-in for "reports the mutation that the link implies" (property C13) - NOT a proof.
// The text of the obiclean_mutation annotation is built by fmt.Sprintf from bytes boxed into interface values; the
// solver answers unknown on that construction, so the real code is run instead: for EVERY father sequence of length
// VERIF_BOUND over {a,c,g,t} (count 1000) and ALL its one-difference variants (every substitution, every deletion, every
// insertion; count 1 each, so no variant is linked to another variant), BuildSeqGraph(distance 1) + Mutation:
//   - every variant carries exactly one mutation, keyed by the father's identifier, of the form (x)->(y)@p;
//   - applying it to the father gives the variant: substitution - the father has x at p, the variant is the father with
//     y at p; deletion (y = '-') - the father has x at p and the variant is the father without that position; insertion
//     (x = '-') - the variant has y at p and is the father once that position is removed;
//   - the father carries no mutation.
// Injected into pkg/obitools/obiclean with `go test -overlay`; nothing is written into the repository.

import (
	"fmt"
	"os"
	"strconv"
	"testing"

	"git.metabarcoding.org/obitools/obitools4/obitools4/pkg/obiseq"
)

func TestVerifBoundedMutation(t *testing.T) {
	bound := 5
	if v, err := strconv.Atoi(os.Getenv("VERIF_BOUND")); err == nil && v > 0 {
		bound = v
	}
	cases, failures := 0, 0
	first := "-"
	fail := func(msg string) {
		failures++
		if first == "-" {
			first = msg
		}
	}
	alpha := "acgt"
	nf := 1
	for i := 0; i < bound; i++ {
		nf *= 4
	}
	for fi := 0; fi < nf; fi++ {
		fb := make([]byte, bound)
		for i, x := 0, fi; i < bound; i, x = i+1, x/4 {
			fb[i] = alpha[x%4]
		}
		father := string(fb)
		variants := []string{}
		seen := map[string]bool{father: true}
		add := func(s string) {
			if !seen[s] {
				seen[s] = true
				variants = append(variants, s)
			}
		}
		for p := 0; p < bound; p++ {
			for k := 0; k < 4; k++ {
				add(father[:p] + string(alpha[k]) + father[p+1:])
			}
			add(father[:p] + father[p+1:])
		}
		for p := 0; p <= bound; p++ {
			for k := 0; k < 4; k++ {
				add(father[:p] + string(alpha[k]) + father[p:])
			}
		}
		func() {
			defer func() {
				if r := recover(); r != nil {
					fail(fmt.Sprintf("father=%s:panic:%v", father, r))
				}
			}()
			big := &seqPCR{Count: 1000, Sequence: obiseq.NewBioSequence("father", []byte(father), "")}
			p := []*seqPCR{big}
			sons := []*seqPCR{} // BuildSeqGraph re-orders the sample slice: keep the records apart
			for i, v := range variants {
				son := &seqPCR{Count: 1, Sequence: obiseq.NewBioSequence(fmt.Sprintf("v%d", i), []byte(v), "")}
				sons = append(sons, son)
				p = append(p, son)
			}
			samples := map[string]*[]*seqPCR{"s1": &p}
			BuildSeqGraph(samples, 1, 2)
			Mutation(samples)
			cases++
			if n := len(GetMutation(big.Sequence)); n != 0 {
				fail(fmt.Sprintf("father=%s:the father carries %d mutations", father, n))
			}
			for i, v := range variants {
				cases++
				mut := GetMutation(sons[i].Sequence)
				txt, ok := mut["father"]
				if !ok || len(mut) != 1 {
					fail(fmt.Sprintf("father=%s,variant=%s:mutations=%v,want exactly one, keyed by the father", father, v, mut))
					continue
				}
				var x, y byte
				var pos int
				if n, err := fmt.Sscanf(txt, "(%c)->(%c)@%d", &x, &y, &pos); n != 3 || err != nil {
					fail(fmt.Sprintf("father=%s,variant=%s:mutation=%q is not of the form (x)->(y)@p", father, v, txt))
					continue
				}
				good := false
				switch {
				case x != '-' && y != '-':
					good = pos >= 1 && pos <= len(father) && len(v) == len(father) && father[pos-1] == x && x != y &&
						father[:pos-1]+string(y)+father[pos:] == v
				case y == '-' && x != '-':
					good = pos >= 1 && pos <= len(father) && father[pos-1] == x && father[:pos-1]+father[pos:] == v
				case x == '-' && y != '-':
					good = pos >= 1 && pos <= len(v) && v[pos-1] == y && v[:pos-1]+v[pos:] == father
				}
				if !good {
					fail(fmt.Sprintf("father=%s,variant=%s:mutation=%s does not turn the father into the variant", father, v, txt))
				}
			}
		}()
	}
	fmt.Printf("VERIF-BOUNDED name=mutation-text bound=%d cases=%d failures=%d first=%s\n", bound, cases, failures, first)
	if failures > 0 {
		t.Fail()
	}
}
