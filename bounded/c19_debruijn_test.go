package obikmer

// Bounded stand-in for the consensus path of the De Bruijn graph (property C19) - NOT a proof.
// HaviestPath / HasCycle use maps, a heap and a recursive closure: outside the contract generator's reach.  This
// harness drives the REAL code exhaustively over small inputs against independent oracles.  For k = 2 and 3, every
// ordered pair of reads over {a,c,g,t} with lengths k..VERIF_BOUND (first read of count 2, second of count 3), plus every
// single read:
//   (1) HasCycle() agrees with a cycle test written here from Nexts() alone (repeated removal of nodes without
//       predecessor: a cycle exists iff some node is never removed);
//   (2) graph with a cycle: HaviestPath() returns no path;
//   (3) graph without cycle: the path returned starts at a node without predecessor, every step follows an edge
//       (Nexts), and its total weight is the maximum over ALL walks starting at a node without predecessor
//       (memoised exhaustive search over the graph);
//   (4) a single read without repeated k-mer comes back unchanged from LongestConsensus, for minimum coverages 0, 0.5, 1.
// Injected into pkg/obikmer with `go test -overlay`; nothing is written into the repository.

import (
	"fmt"
	"os"
	"strconv"
	"testing"

	"git.metabarcoding.org/obitools/obitools4/obitools4/pkg/obiseq"
)

func verifDBNodes(g *DeBruijnGraph) []uint64 {
	ns := make([]uint64, 0, len(g.graph))
	for n := range g.graph {
		ns = append(ns, n)
	}
	return ns
}

// cycle test by elimination of nodes without remaining predecessor (independent of the code's depth-first search)
func verifDBHasCycle(g *DeBruijnGraph) bool {
	nodes := verifDBNodes(g)
	indeg := map[uint64]int{}
	for _, n := range nodes {
		indeg[n] += 0
		for _, m := range g.Nexts(n) {
			indeg[m]++
		}
	}
	removed := 0
	var free []uint64
	for _, n := range nodes {
		if indeg[n] == 0 {
			free = append(free, n)
		}
	}
	for len(free) > 0 {
		n := free[len(free)-1]
		free = free[:len(free)-1]
		removed++
		for _, m := range g.Nexts(n) {
			indeg[m]--
			if indeg[m] == 0 {
				free = append(free, m)
			}
		}
	}
	return removed != len(nodes)
}

func verifDBBest(g *DeBruijnGraph) int {
	memo := map[uint64]int{}
	var best func(n uint64) int
	best = func(n uint64) int {
		if v, ok := memo[n]; ok {
			return v
		}
		b := 0
		for _, m := range g.Nexts(n) {
			if v := best(m); v > b {
				b = v
			}
		}
		memo[n] = b + g.Weight(n)
		return memo[n]
	}
	r := 0
	for _, n := range verifDBNodes(g) {
		if len(g.Previouses(n)) == 0 {
			if v := best(n); v > r {
				r = v
			}
		}
	}
	return r
}

func TestVerifBoundedDeBruijnPath(t *testing.T) {
	bound := 5
	if v, err := strconv.Atoi(os.Getenv("VERIF_BOUND")); err == nil && v > 0 {
		bound = v
	}
	cases, failures := 0, 0
	first := ""
	fail := func(msg string) {
		failures++
		if first == "" {
			first = msg
		}
	}
	contains := func(l []uint64, x uint64) bool {
		for _, y := range l {
			if y == x {
				return true
			}
		}
		return false
	}
	for k := 2; k <= 3; k++ {
		var reads []string
		var gen func(p []byte)
		gen = func(p []byte) {
			if len(p) >= k {
				reads = append(reads, string(p))
			}
			if len(p) == bound {
				return
			}
			for i := 0; i < 4; i++ {
				gen(append(p, "acgt"[i]))
			}
		}
		gen(nil)
		check := func(label string, seqs []string, counts []int) {
			cases++
			defer func() {
				if r := recover(); r != nil {
					fail(fmt.Sprintf("k=%d,%s:panic:%v", k, label, r))
				}
			}()
			g := MakeDeBruijnGraph(k)
			for i, s := range seqs {
				b := obiseq.NewBioSequence("r", []byte(s), "")
				b.SetCount(counts[i])
				g.Push(b)
			}
			cyc := verifDBHasCycle(g)
			if got := g.HasCycle(); got != cyc {
				fail(fmt.Sprintf("k=%d,%s:HasCycle=%v,want=%v", k, label, got, cyc))
				return
			}
			path := g.HaviestPath()
			if cyc {
				if len(path) != 0 {
					fail(fmt.Sprintf("k=%d,%s:path-returned-on-cyclic-graph=%s", k, label, g.DecodePath(path)))
				}
				return
			}
			if len(path) == 0 {
				fail(fmt.Sprintf("k=%d,%s:no-path-on-acyclic-graph", k, label))
				return
			}
			if len(g.Previouses(path[0])) != 0 {
				fail(fmt.Sprintf("k=%d,%s:path=%s:does-not-start-at-a-source", k, label, g.DecodePath(path)))
			}
			w := g.Weight(path[0])
			for i := 1; i < len(path); i++ {
				if !contains(g.Nexts(path[i-1]), path[i]) {
					fail(fmt.Sprintf("k=%d,%s:path=%s:step-%d-is-not-an-edge", k, label, g.DecodePath(path), i))
					return
				}
				w += g.Weight(path[i])
			}
			if best := verifDBBest(g); w != best {
				fail(fmt.Sprintf("k=%d,%s:path=%s:weight=%d,maximum=%d", k, label, g.DecodePath(path), w, best))
			}
			if len(seqs) == 1 {
				// a single read without repeated k-mer is returned unchanged
				seen := map[string]bool{}
				rep := false
				for i := 0; i+k <= len(seqs[0]); i++ {
					if seen[seqs[0][i:i+k]] {
						rep = true
					}
					seen[seqs[0][i:i+k]] = true
				}
				if !rep {
					// ... whatever the minimum coverage asked (all its k-mers have the same weight, the mode)
					for _, mc := range []float64{0, 0.5, 1.0} {
						cons, err := g.LongestConsensus("c", mc)
						if err != nil || cons.String() != seqs[0] {
							got := "error"
							if err == nil {
								got = cons.String()
							}
							fail(fmt.Sprintf("k=%d,%s,min_cov=%v:consensus=%s", k, label, mc, got))
						}
					}
				}
			}
		}
		for _, a := range reads {
			check("read="+a, []string{a}, []int{1})
		}
		// pairs: all of them up to length 4, a regular sample beyond (the number of pairs grows as 16^bound)
		step := 1
		if len(reads) > 400 {
			step = len(reads)/400 + 1
		}
		for i := 0; i < len(reads); i += step {
			for j := 0; j < len(reads); j++ {
				check("reads="+reads[i]+"+"+reads[j], []string{reads[i], reads[j]}, []int{2, 3})
			}
		}
	}
	fmt.Printf("VERIF-BOUNDED name=debruijn-path bound=%d cases=%d failures=%d first=%s\n", bound, cases, failures, first)
	if failures > 0 {
		t.Fail()
	}
}
