package obitag2

// Bounded stand-in for the set-up of the two-level reference database in obitag2.CLIAssignTaxonomy (property C15) -
// NOT a proof.  CLIAssignTaxonomy of obitag2 is not under contract (it reads indices stored in annotations and drives
// the two searches through closures); the real code is run instead on a database of three families (one with a cluster
// head and a member, two with a head only), in EVERY order of the references (24 permutations: heads before or after
// non-heads), for queries at known distances of the references: the reference reported as best match is the unique
// closest one (distances by construction: substitutions at distinct positions of a 40 nt sequence with unique 4-mers),
// and the taxon assigned is an ancestor-or-self of the taxon of that reference.
// VERIF_BOUND is the number of permutations run (24 = all).
// Injected into pkg/obitools/obitag2 with `go test -overlay`; nothing is written into the repository.

import (
	"fmt"
	"os"
	"strconv"
	"testing"

	"git.metabarcoding.org/obitools/obitools4/obitools4/pkg/obiiter"
	"git.metabarcoding.org/obitools/obitools4/obitools4/pkg/obikmer"
	"git.metabarcoding.org/obitools/obitools4/obitools4/pkg/obiseq"
	"git.metabarcoding.org/obitools/obitools4/obitools4/pkg/obitax"
	"git.metabarcoding.org/obitools/obitools4/obitools4/pkg/obitools/obirefidx"
)

func verifDbTaxonomy(t *testing.T) *obitax.Taxonomy {
	taxo := obitax.NewTaxonomy()
	add := func(taxid, parent int, rank, name string) {
		if _, err := taxo.AddNewTaxa(taxid, parent, rank, false, false); err != nil {
			t.Fatal(err)
		}
		class := "scientific name"
		n := name
		if err := taxo.AddNewName(taxid, &n, &class); err != nil {
			t.Fatal(err)
		}
	}
	add(1, 1, "no rank", "root")
	add(5, 1, "family", "Aidae")
	add(10, 5, "genus", "Aus")
	add(11, 10, "species", "Aus bus")
	add(6, 1, "family", "Bidae")
	add(20, 6, "genus", "Bus")
	add(21, 20, "species", "Bus cus")
	add(7, 1, "family", "Cidae")
	add(30, 7, "genus", "Cus")
	add(31, 30, "species", "Cus dus")
	add(32, 30, "species", "Cus eus")
	if err := taxo.ReindexParent(); err != nil {
		t.Fatal(err)
	}
	return taxo
}

func verifDbMutate(s string, positions ...int) string {
	next := map[byte]byte{'a': 'c', 'c': 'g', 'g': 't', 't': 'a'}
	b := []byte(s)
	for _, p := range positions {
		b[p] = next[b[p]]
	}
	return string(b)
}

func TestVerifBoundedObitag2Database(t *testing.T) {
	bound := 24
	if v, err := strconv.Atoi(os.Getenv("VERIF_BOUND")); err == nil && v > 0 && v < 24 {
		bound = v
	}
	cases, failures := 0, 0
	first := "-"
	fail := func(msg string) {
		failures++
		if first == "-" {
			first = msg
		}
	}
	taxo := verifDbTaxonomy(t)
	base := "aaaacaaagaaataaccaacgaactaagcaagtaatcacc"
	type refdef struct {
		id, seq       string
		taxid, family int
		head          bool
	}
	defs := []refdef{
		{"c_head", "ggttggttccggccttggttccggttggccttggttccgg", 31, 7, true},
		{"c_member", "ggttggttccggccttggttccggttggccttggttccgc", 32, 7, false},
		{"a_head", verifDbMutate(base, 20), 11, 5, true},
		{"b_head", verifDbMutate(base, 8, 30), 21, 6, true},
	}
	queries := []struct {
		seq, best string
		taxid     int
	}{
		{base, "a_head", 11},                          // 1 difference from a_head, 2 from b_head
		{verifDbMutate(base, 8), "b_head", 21},        // 1 from b_head, 2 from a_head
		{verifDbMutate(base, 20, 3), "a_head", 11},    // 1 from a_head, 4 from b_head
		{verifDbMutate(base, 8, 30, 2), "b_head", 21}, // 1 from b_head, 4 from a_head
	}
	perms := [][]int{}
	var gen func(cur []int, used int)
	gen = func(cur []int, used int) {
		if len(cur) == len(defs) {
			perms = append(perms, append([]int{}, cur...))
			return
		}
		for i := range defs {
			if used&(1<<i) == 0 {
				gen(append(cur, i), used|1<<i)
			}
		}
	}
	gen(nil, 0)
	for pi, perm := range perms {
		if pi >= bound {
			break
		}
		for qi, q := range queries {
			cases++
			func() {
				defer func() {
					if r := recover(); r != nil {
						fail(fmt.Sprintf("order=%v,query=%d:panic:%v", perm, qi, r))
					}
				}()
				references := obiseq.MakeBioSequenceSlice()
				for _, k := range perm {
					d := defs[k]
					s := obiseq.NewBioSequence(d.id, []byte(d.seq), "")
					s.SetTaxid(d.taxid)
					s.SetAttribute("family_taxid", d.family)
					s.SetAttribute("reffamidx_clusterhead", d.head)
					references = append(references, s)
				}
				counts := make([]*obikmer.Table4mer, len(references))
				for i, s := range references {
					counts[i] = obikmer.Count4Mer(s, nil, nil)
				}
				clusters := obiseq.MakeBioSequenceSlice()
				kclusters := make([]*obikmer.Table4mer, 0)
				tclusters := make(obitax.TaxonSet)
				families := map[int][]int{}
				famorder := []int{}
				for i, k := range perm {
					if defs[k].head {
						tclusters[len(clusters)], _ = taxo.Taxon(references[i].Taxid())
						clusters = append(clusters, references[i])
						kclusters = append(kclusters, counts[i])
					}
					if _, ok := families[defs[k].family]; !ok {
						famorder = append(famorder, defs[k].family)
					}
					families[defs[k].family] = append(families[defs[k].family], i)
				}
				for j := range clusters {
					clusters[j].SetOBITagRefIndex(obirefidx.IndexSequence(j, clusters, &kclusters, &tclusters, taxo))
				}
				for _, f := range famorder {
					members := families[f]
					fam := obiseq.MakeBioSequenceSlice()
					kfam := make([]*obikmer.Table4mer, 0)
					tfam := make(obitax.TaxonSet)
					for j, i := range members {
						fam = append(fam, references[i])
						kfam = append(kfam, counts[i])
						tfam[j], _ = taxo.Taxon(references[i].Taxid())
					}
					for j := range members {
						fam[j].SetAttribute("reffamidx_in", obirefidx.IndexSequence(j, fam, &kfam, &tfam, taxo))
					}
				}
				query := obiseq.NewBioSequence("query", []byte(q.seq), "")
				input := obiiter.IBatchOver("verif", obiseq.BioSequenceSlice{query}, 10)
				_, result := CLIAssignTaxonomy(input, references, taxo).Load()
				if len(result) != 1 {
					fail(fmt.Sprintf("order=%v,query=%d:%d records out,want 1", perm, qi, len(result)))
					return
				}
				res := result[0]
				bestmatch, _ := res.GetStringAttribute("obitag_bestmatch")
				if bestmatch != q.best {
					fail(fmt.Sprintf("order=%v,query=%d:best match %q,want %q (the unique closest reference)", perm, qi, bestmatch, q.best))
					return
				}
				assigned, err := taxo.Taxon(res.Taxid())
				if err != nil {
					fail(fmt.Sprintf("order=%v,query=%d:assigned taxid %d unknown", perm, qi, res.Taxid()))
					return
				}
				closest, _ := taxo.Taxon(q.taxid)
				lca, _ := assigned.LCA(closest)
				if lca.Taxid() != assigned.Taxid() {
					fail(fmt.Sprintf("order=%v,query=%d:assigned taxon %d is not an ancestor of the taxon %d of the closest reference", perm, qi, assigned.Taxid(), q.taxid))
				}
			}()
		}
	}
	fmt.Printf("VERIF-BOUNDED name=obitag2-database bound=%d cases=%d failures=%d first=%s\n", bound, cases, failures, first)
	if failures > 0 {
		t.Fail()
	}
}
