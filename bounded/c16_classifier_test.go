package obiseq

// Bounded stand-in for the annotation classifiers that obidistribute routes on (property C16) - NOT a proof.
// DualAnnotationClassifier(key1, key2, na) and AnnotationClassifier(key, na): the map look-ups and the nested type
// switches of their code closures are outside the generator (no hook event for a map read; interface values re-declared
// in nested type switches), so the closures are run on the real code instead.
// Exhaustive over all records whose two tags take each of VERIF_BOUND string values, one integer value, or are absent
// (a third, unrelated tag keeps the annotation map non empty), for the three key configurations (k1,k2), (k2,k1), (k1,""):
//   - Value(Code(s)) decodes to the pair (value of key1 or NA, value of key2 or NA; "" when no second key is given);
//   - two records get the same code iff their pairs are equal (every pair of records);
//   - the answer is the same on a second call and on a Clone(); after Reset() the codes still separate exactly the
//     classes (Value() after Reset() is used nowhere in the repository and is not claimed: see DESIGN 12.5);
//   - AnnotationClassifier: Value(Code(s)) is the value of the key or NA, same code iff same value.
// Injected into pkg/obiseq with `go test -overlay`; nothing is written into the repository.

import (
	"encoding/json"
	"fmt"
	"os"
	"strconv"
	"testing"
)

func TestVerifBoundedClassifier(t *testing.T) {
	bound := 3
	if v, err := strconv.Atoi(os.Getenv("VERIF_BOUND")); err == nil && v > 0 {
		bound = v
	}
	cases, failures := 0, 0
	first := "-"
	fail := func(msg string) {
		failures++
		if first == "-" {
			first = msg
		}
	}
	// tag values: nil = absent
	var values []interface{}
	values = append(values, nil, 7)
	for i := 0; i < bound; i++ {
		values = append(values, fmt.Sprintf("v%d", i))
	}
	text := func(v interface{}, na string) string {
		if v == nil {
			return na
		}
		return fmt.Sprint(v)
	}
	type rec struct {
		s      *BioSequence
		v1, v2 interface{}
	}
	var recs []rec
	for _, v1 := range values {
		for _, v2 := range values {
			s := NewBioSequence(fmt.Sprintf("s_%v_%v", v1, v2), []byte("acgtacgt"), "")
			s.SetAttribute("other", 3)
			if v1 != nil {
				s.SetAttribute("k1", v1)
			}
			if v2 != nil {
				s.SetAttribute("k2", v2)
			}
			recs = append(recs, rec{s, v1, v2})
		}
	}
	const na = "NA"
	for _, cfg := range [][2]string{{"k1", "k2"}, {"k2", "k1"}, {"k1", ""}} {
		want := func(r rec) [2]string {
			get := func(k string) interface{} {
				if k == "k1" {
					return r.v1
				}
				return r.v2
			}
			w := [2]string{text(get(cfg[0]), na), ""}
			if cfg[1] != "" {
				w[1] = text(get(cfg[1]), na)
			}
			return w
		}
		func() {
			defer func() {
				if r := recover(); r != nil {
					fail(fmt.Sprintf("keys=%v:panic:%v", cfg, r))
				}
			}()
			c := DualAnnotationClassifier(cfg[0], cfg[1], na)
			decode := func(cl *BioSequenceClassifier, s *BioSequence) ([2]string, int, bool) {
				var keys [2]string
				k := cl.Code(s)
				if err := json.Unmarshal([]byte(cl.Value(k)), &keys); err != nil {
					return keys, k, false
				}
				return keys, k, true
			}
			codes := make([]int, len(recs))
			for i, r := range recs {
				cases++
				got, k, ok := decode(c, r.s)
				codes[i] = k
				if !ok || got != want(r) {
					fail(fmt.Sprintf("keys=%v,record(k1=%v,k2=%v):class=%v,want=%v", cfg, r.v1, r.v2, got, want(r)))
					continue
				}
				if k2 := c.Code(r.s); k2 != k {
					fail(fmt.Sprintf("keys=%v,record(k1=%v,k2=%v):second call gives code %d, first %d", cfg, r.v1, r.v2, k2, k))
				}
				cl := c.Clone()
				if g2, _, ok2 := decode(cl, r.s); !ok2 || g2 != got {
					fail(fmt.Sprintf("keys=%v,record(k1=%v,k2=%v):clone gives class %v, original %v", cfg, r.v1, r.v2, g2, got))
				}
			}
			for i := range recs {
				for j := i + 1; j < len(recs); j++ {
					cases++
					same := want(recs[i]) == want(recs[j])
					if (codes[i] == codes[j]) != same {
						fail(fmt.Sprintf("keys=%v,records(k1=%v,k2=%v)/(k1=%v,k2=%v):same output=%v,want=%v", cfg, recs[i].v1, recs[i].v2, recs[j].v1, recs[j].v2, codes[i] == codes[j], same))
					}
				}
			}
			// Reset() is only followed by Code() in the repository (ISequenceSubChunk): the codes handed out after it
			// must still separate exactly the classes (Value() after Reset() is not used and not claimed)
			c.Reset()
			for i := len(recs) - 1; i >= 0; i-- {
				codes[i] = c.Code(recs[i].s)
			}
			for i := range recs {
				for j := i + 1; j < len(recs); j++ {
					cases++
					same := want(recs[i]) == want(recs[j])
					if (codes[i] == codes[j]) != same {
						fail(fmt.Sprintf("keys=%v,after Reset,records(k1=%v,k2=%v)/(k1=%v,k2=%v):same class=%v,want=%v", cfg, recs[i].v1, recs[i].v2, recs[j].v1, recs[j].v2, codes[i] == codes[j], same))
					}
				}
			}
		}()
	}
	// single-key classifier
	func() {
		defer func() {
			if r := recover(); r != nil {
				fail(fmt.Sprintf("AnnotationClassifier:panic:%v", r))
			}
		}()
		for _, key := range []string{"k1", "k2"} {
			c := AnnotationClassifier(key, na)
			codes := make([]int, len(recs))
			wants := make([]string, len(recs))
			for i, r := range recs {
				cases++
				v := r.v1
				if key == "k2" {
					v = r.v2
				}
				wants[i] = text(v, na)
				codes[i] = c.Code(r.s)
				if got := c.Value(codes[i]); got != wants[i] {
					fail(fmt.Sprintf("AnnotationClassifier(%s),record(k1=%v,k2=%v):class=%q,want=%q", key, r.v1, r.v2, got, wants[i]))
				}
			}
			for i := range recs {
				for j := i + 1; j < len(recs); j++ {
					cases++
					if (codes[i] == codes[j]) != (wants[i] == wants[j]) {
						fail(fmt.Sprintf("AnnotationClassifier(%s),records %d/%d:same output=%v,want=%v", key, i, j, codes[i] == codes[j], wants[i] == wants[j]))
					}
				}
			}
		}
	}()
	fmt.Printf("VERIF-BOUNDED name=annotation-classifiers bound=%d cases=%d failures=%d first=%s\n", bound, cases, failures, first)
	if failures > 0 {
		t.Fail()
	}
}
