package obitax

// Bounded stand-in for the taxid spellings accepted by Taxonomy.Taxon (property C14) - NOT a proof.
// The "TX:<digits>" spelling is extracted with a regular expression; regexp semantics are external to the generator.
// The real code is run instead on a taxonomy holding every taxid 1..VERIF_BOUND (parent of n = n/2, root 1), with one
// merged identifier per decade:
//   - Taxon(n), Taxon("n"), Taxon("TX:n"), Taxon("Some name [TX:n]") return the same node, whose taxid is n;
//   - the merged identifiers resolve to their target in all four spellings;
//   - identifiers outside the taxonomy and unparsable strings give an error in all spellings, never another node.
// Injected into pkg/obitax with `go test -overlay`; nothing is written into the repository.

import (
	"fmt"
	"os"
	"strconv"
	"testing"
)

func TestVerifBoundedTaxonSpelling(t *testing.T) {
	bound := 300
	if v, err := strconv.Atoi(os.Getenv("VERIF_BOUND")); err == nil && v > 0 {
		bound = v
	}
	cases, failures := 0, 0
	first := "-"
	fail := func(msg string) {
		failures++
		if first == "-" {
			first = msg
		}
	}
	func() {
		defer func() {
			if r := recover(); r != nil {
				fail(fmt.Sprintf("panic:%v", r))
			}
		}()
		taxo := NewTaxonomy()
		for n := 1; n <= bound; n++ {
			p := n / 2
			if n == 1 {
				p = 1
			}
			if _, err := taxo.AddNewTaxa(n, p, "no rank", false, false); err != nil {
				fail(fmt.Sprintf("AddNewTaxa(%d):%v", n, err))
				return
			}
		}
		if err := taxo.ReindexParent(); err != nil {
			fail(fmt.Sprintf("ReindexParent:%v", err))
			return
		}
		alias := map[int]int{}
		for n := 10; n <= bound; n += 10 {
			a := 10*bound + n
			if err := taxo.AddNewAlias(n, a); err != nil {
				fail(fmt.Sprintf("AddNewAlias(%d,%d):%v", n, a, err))
				return
			}
			alias[a] = n
		}
		spellings := func(n int) []interface{} {
			return []interface{}{n, fmt.Sprintf("%d", n), fmt.Sprintf("TX:%d", n), fmt.Sprintf("Some name [TX:%d]", n)}
		}
		for n := 1; n <= bound; n++ {
			for _, sp := range spellings(n) {
				cases++
				got, err := taxo.Taxon(sp)
				if err != nil || got == nil || got.Taxid() != n {
					fail(fmt.Sprintf("Taxon(%#v):node=%v,err=%v,want taxid %d", sp, got, err, n))
				}
			}
		}
		for a, n := range alias {
			for _, sp := range spellings(a) {
				cases++
				got, err := taxo.Taxon(sp)
				if err != nil || got == nil || got.Taxid() != n {
					fail(fmt.Sprintf("Taxon(%#v) (merged into %d):node=%v,err=%v", sp, n, got, err))
				}
			}
		}
		for n := bound + 1; n <= 2*bound; n++ {
			for _, sp := range spellings(n) {
				cases++
				if got, err := taxo.Taxon(sp); err == nil {
					fail(fmt.Sprintf("Taxon(%#v):node %v for an identifier outside the taxonomy,want an error", sp, got))
				}
			}
		}
		for _, sp := range []interface{}{"TX:", "none", "", "TX:x1"} {
			cases++
			if got, err := taxo.Taxon(sp); err == nil {
				fail(fmt.Sprintf("Taxon(%#v):node %v,want an error", sp, got))
			}
		}
	}()
	fmt.Printf("VERIF-BOUNDED name=taxid-spellings bound=%d cases=%d failures=%d first=%s\n", bound, cases, failures, first)
	if failures > 0 {
		t.Fail()
	}
}
