package obiapat

// Bounded stand-in (property C07: every complement table of the repository is the same involution) - NOT a proof.
// The pattern matcher complements patterns with a table of its own, in C (LX_BIO_CDNA_ALPHA).  For every IUPAC code X
// (lower and upper case), alone and inside a pattern, ApatPattern.ReverseComplement must give what
// obiseq.ReverseComplement gives for the same text.
// Injected into pkg/obiapat with `go test -overlay`; nothing is written into the repository.

import (
	"fmt"
	"strings"
	"testing"

	"git.metabarcoding.org/obitools/obitools4/obitools4/pkg/obiseq"
)

func TestVerifBoundedPatternComplementTable(t *testing.T) {
	cases, failures := 0, 0
	first := ""
	check := func(p string) {
		cases++
		pat, err := MakeApatPattern(p, 0, false)
		if err != nil {
			failures++
			if first == "" {
				first = "cannot-compile:" + p
			}
			return
		}
		defer pat.Free()
		rc, err := pat.ReverseComplement()
		if err != nil {
			failures++
			if first == "" {
				first = "cannot-complement:" + p
			}
			return
		}
		defer rc.Free()
		want := obiseq.NewBioSequence("x", []byte(strings.ToLower(p)), "").ReverseComplement(true).String()
		if got := strings.ToLower(rc.String()); got != want {
			failures++
			if first == "" {
				first = fmt.Sprintf("pattern=%s,complement=%s,obiseq=%s", p, got, want)
			}
		}
	}
	for _, x := range "ACGTRYKMSWBDHVN" {
		check(string(x))
		check(strings.ToLower(string(x)))
		check("AC" + string(x) + "GT")
		check(string(x) + "AAC")
		check("GGT" + string(x))
	}
	fmt.Printf("VERIF-BOUNDED name=pattern-complement-table bound=%d cases=%d failures=%d first=%s\n", 15, cases, failures, first)
	if failures > 0 {
		t.Fail()
	}
}
