package obichunk

// Bounded stand-in for the class-ordering step of ISequenceSubChunk (property C06) - NOT a proof.
// sSSSorter.Less hands the ADDRESSES of two slice elements to the comparison closure; the generator does not model
// element addresses injectively, so "the two arguments are elements i and j" has no obligation.  The real code is run
// instead, exhaustively over every arrangement of up to VERIF_BOUND records drawn from three classes:
// ISequenceSubChunk (one worker, SequenceClassifier; only exported names are used, so that renaming the unexported
// sorter types does not break the harness): every output batch holds records of one class only, every class present in
// the chunk comes out as exactly ONE batch - which needs the records sorted in class order - and the records are
// conserved (same identifiers).
// Injected into pkg/obichunk with `go test -overlay`; nothing is written into the repository.

import (
	"fmt"
	"os"
	"sort"
	"strconv"
	"testing"

	"git.metabarcoding.org/obitools/obitools4/obitools4/pkg/obiiter"
	"git.metabarcoding.org/obitools/obitools4/obitools4/pkg/obiseq"
)

func TestVerifBoundedSubChunk(t *testing.T) {
	bound := 5
	if v, err := strconv.Atoi(os.Getenv("VERIF_BOUND")); err == nil && v > 0 {
		bound = v
	}
	cases, failures := 0, 0
	first := "-"
	fail := func(msg string) {
		failures++
		if first == "-" {
			first = msg
		}
	}
	classes := []string{"acgtacgtaa", "ttttggggcc", "ccccaaaatt"}
	var arrangements func(n int) [][]int
	arrangements = func(n int) [][]int {
		if n == 0 {
			return [][]int{{}}
		}
		var out [][]int
		for _, a := range arrangements(n - 1) {
			for c := range classes {
				out = append(out, append(append([]int{}, a...), c))
			}
		}
		return out
	}
	for n := 1; n <= bound; n++ {
		for _, arr := range arrangements(n) {
			// the sub-chunk stage
			cases++
			func() {
				defer func() {
					if r := recover(); r != nil {
						fail(fmt.Sprintf("subchunk,classes=%v:panic:%v", arr, r))
					}
				}()
				data := obiseq.MakeBioSequenceSlice()
				want := map[int]int{}
				for i, c := range arr {
					data = append(data, obiseq.NewBioSequence(fmt.Sprintf("r%d", i), []byte(classes[c]), ""))
					want[c]++
				}
				out, err := ISequenceSubChunk(obiiter.IBatchOver("verif", data, 100), obiseq.SequenceClassifier(), 1)
				if err != nil {
					fail(fmt.Sprintf("subchunk,classes=%v:error:%v", arr, err))
					return
				}
				nbatch := map[string]int{}
				ids := []string{}
				mixed := false
				for out.Next() {
					b := out.Get()
					if b.Len() == 0 {
						continue
					}
					f := b.Slice()[0].String()
					nbatch[f]++
					for _, s := range b.Slice() {
						ids = append(ids, s.Id())
						if s.String() != f {
							mixed = true
						}
					}
				}
				if mixed {
					fail(fmt.Sprintf("subchunk,classes=%v:a batch mixes two classes", arr))
					return
				}
				for c, cnt := range want {
					if cnt > 0 && nbatch[classes[c]] != 1 {
						fail(fmt.Sprintf("subchunk,classes=%v:class %d comes out as %d batches,want 1", arr, c, nbatch[classes[c]]))
						return
					}
				}
				sort.Strings(ids)
				if len(ids) != n {
					fail(fmt.Sprintf("subchunk,classes=%v:%d records out,%d in", arr, len(ids), n))
					return
				}
				for i := 1; i < len(ids); i++ {
					if ids[i] == ids[i-1] {
						fail(fmt.Sprintf("subchunk,classes=%v:record %s comes out twice", arr, ids[i]))
						return
					}
				}
			}()
		}
	}
	fmt.Printf("VERIF-BOUNDED name=subchunk-class-order bound=%d cases=%d failures=%d first=%s\n", bound, cases, failures, first)
	if failures > 0 {
		t.Fail()
	}
}
