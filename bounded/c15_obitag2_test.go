package obitag2

// Bounded stand-in for the second implementation of the assignment search, obitag2.FindClosests (property C15) -
// NOT a proof.  obitag2.FindClosests is not under contract: it decides "distance 0" by comparing nucleotide strings
// and stops after 1000 candidates, a cap under which the C15 invariants are false on the unchanged code (DESIGN 12.5);
// below that cap the search must still be lossless, and the real code is run instead:
// a 40 nt query in which every 4-mer occurs once, a pool of 20 references derived from it (identical copy; one, two,
// three, four substitutions, adjacent and spread, at the ends and inside; one and two deletions; insertions; mixed;
// one unrelated sequence), and EVERY database made of 1..VERIF_BOUND distinct pool members, in pool order and reversed:
//   - the indices returned are exactly the references at the minimal distance (columns - matches of the optimal
//     alignment, max matches then min columns, computed by an independent DP);
//   - the distance returned is that minimum; bests[i] is references[indices[i]].
// Injected into pkg/obitools/obitag2 with `go test -overlay`; nothing is written into the repository.

import (
	"fmt"
	"os"
	"sort"
	"strconv"
	"testing"

	"git.metabarcoding.org/obitools/obitools4/obitools4/pkg/obikmer"
	"git.metabarcoding.org/obitools/obitools4/obitools4/pkg/obiseq"
)

// oracle: lexicographic optimum (max matches, min columns) over all global alignments
func verifOracle2(a, b []byte) (int, int) {
	type cell struct{ s, l int }
	better := func(x, y cell) bool { return x.s > y.s || (x.s == y.s && x.l < y.l) }
	la, lb := len(a), len(b)
	m := make([][]cell, la+1)
	for i := range m {
		m[i] = make([]cell, lb+1)
	}
	for i := 0; i <= la; i++ {
		for j := 0; j <= lb; j++ {
			if i == 0 && j == 0 {
				continue
			}
			best := cell{-1, 1 << 30}
			if i > 0 {
				c := cell{m[i-1][j].s, m[i-1][j].l + 1}
				if better(c, best) {
					best = c
				}
			}
			if j > 0 {
				c := cell{m[i][j-1].s, m[i][j-1].l + 1}
				if better(c, best) {
					best = c
				}
			}
			if i > 0 && j > 0 {
				c := cell{m[i-1][j-1].s, m[i-1][j-1].l + 1}
				if a[i-1] == b[j-1] {
					c.s++
				}
				if better(c, best) {
					best = c
				}
			}
			m[i][j] = best
		}
	}
	return m[la][lb].s, m[la][lb].l
}

func TestVerifBoundedObitag2Search(t *testing.T) {
	bound := 3
	if v, err := strconv.Atoi(os.Getenv("VERIF_BOUND")); err == nil && v > 0 {
		bound = v
	}
	cases, failures := 0, 0
	first := "-"
	fail := func(msg string) {
		failures++
		if first == "-" {
			first = msg
		}
	}
	const q = "aaaacaaagaaataaccaacgaactaagcaagtaatcacc"
	L := len(q)
	other := func(c byte) byte {
		switch c {
		case 'a':
			return 'c'
		case 'c':
			return 'g'
		case 'g':
			return 't'
		}
		return 'a'
	}
	subst := func(s string, pos ...int) string {
		b := []byte(s)
		for _, p := range pos {
			b[p] = other(b[p])
		}
		return string(b)
	}
	del := func(s string, p int) string { return s[:p] + s[p+1:] }
	ins := func(s string, p int, c byte) string { return s[:p] + string(c) + s[p:] }
	pool := []string{
		q,
		subst(q, 0), subst(q, 20), subst(q, L-1),
		subst(q, 10, 11), subst(q, 5, 30),
		subst(q, 15, 16, 17), subst(q, 3, 19, 35),
		subst(q, 22, 23, 24, 25), subst(q, 2, 12, 22, 32),
		del(q, 0), del(q, 19), del(q, L-1),
		del(del(q, 25), 8),
		ins(q, 1, 'g'), ins(q, 20, 't'), ins(ins(q, 30, 'g'), 7, 'c'),
		subst(del(q, 14), 28), subst(ins(q, 33, 'a'), 6, 7),
		"ggttggttccggccttggttccggttggccttggttccgg",
	}
	dist := make([]int, len(pool))
	seqs := make([]*obiseq.BioSequence, len(pool))
	counts := make([]*obikmer.Table4mer, len(pool))
	for i, r := range pool {
		s, l := verifOracle2([]byte(q), []byte(r))
		dist[i] = l - s
		seqs[i] = obiseq.NewBioSequence(fmt.Sprintf("ref%d", i), []byte(r), "")
		counts[i] = obikmer.Count4Mer(seqs[i], nil, nil)
	}
	query := obiseq.NewBioSequence("query", []byte(q), "")
	check := func(members []int) {
		cases++
		func() {
			defer func() {
				if r := recover(); r != nil {
					fail(fmt.Sprintf("database=%v:panic:%v", members, r))
				}
			}()
			refs := obiseq.MakeBioSequenceSlice()
			rc := []*obikmer.Table4mer{}
			min := 1 << 30
			for _, m := range members {
				refs = append(refs, seqs[m])
				rc = append(rc, counts[m])
				if dist[m] < min {
					min = dist[m]
				}
			}
			want := []int{}
			for k, m := range members {
				if dist[m] == min {
					want = append(want, k)
				}
			}
			bests, maxe, _, _, idxs := FindClosests(query, refs, rc, false)
			got := append([]int{}, idxs...)
			sort.Ints(got)
			if maxe != min || fmt.Sprint(got) != fmt.Sprint(want) {
				fail(fmt.Sprintf("database=%v(distances %v):best=%v at distance %d,want %v at distance %d", members, func() []int {
					d := []int{}
					for _, m := range members {
						d = append(d, dist[m])
					}
					return d
				}(), got, maxe, want, min))
				return
			}
			if len(bests) != len(idxs) {
				fail(fmt.Sprintf("database=%v:%d best references for %d indices", members, len(bests), len(idxs)))
				return
			}
			for k := range idxs {
				if bests[k] != refs[idxs[k]] {
					fail(fmt.Sprintf("database=%v:best reference %d is not the reference of index %d", members, k, idxs[k]))
					return
				}
			}
		}()
	}
	var rec func(start int, cur []int)
	rec = func(start int, cur []int) {
		if len(cur) > 0 {
			check(cur)
			if len(cur) > 1 {
				rev := make([]int, len(cur))
				for i := range cur {
					rev[len(cur)-1-i] = cur[i]
				}
				check(rev)
			}
		}
		if len(cur) == bound {
			return
		}
		for i := start; i < len(pool); i++ {
			rec(i+1, append(append([]int{}, cur...), i))
		}
	}
	rec(0, nil)
	fmt.Printf("VERIF-BOUNDED name=obitag2-search bound=%d cases=%d failures=%d first=%s\n", bound, cases, failures, first)
	if failures > 0 {
		t.Fail()
	}
}
