package obikmer

// Bounded stand-in (property C07: every complement table of the repository is the same involution) - NOT a proof.
// revcompnuc is a package-level map literal; the contract generator reads array tables, not map literals.  The table
// is finite: this harness compares EVERY entry with what obiseq.ReverseComplement does to the same symbol, and checks
// that the table is an involution on the symbols that have a complement of their own.
// Injected into pkg/obikmer with `go test -overlay`; nothing is written into the repository.

import (
	"fmt"
	"testing"

	"git.metabarcoding.org/obitools/obitools4/obitools4/pkg/obiseq"
)

func TestVerifBoundedComplementTable(t *testing.T) {
	cases, failures := 0, 0
	first := ""
	for c := 0; c < 256; c++ {
		b := byte(c)
		got, ok := revcompnuc[b]
		if !ok {
			continue
		}
		cases++
		want := obiseq.NewBioSequence("x", []byte{b}, "").ReverseComplement(true).Sequence()[0]
		if got != want {
			failures++
			if first == "" {
				first = fmt.Sprintf("revcompnuc[%c]=%c,obiseq=%c", b, got, want)
			}
		}
	}
	for _, b := range []byte("acgtrykmswbdhvn") {
		if _, ok := revcompnuc[b]; !ok {
			failures++
			if first == "" {
				first = fmt.Sprintf("no-entry-for-%c", b)
			}
		}
	}
	fmt.Printf("VERIF-BOUNDED name=complement-table bound=%d cases=%d failures=%d first=%s\n", 256, cases, failures, first)
	if failures > 0 {
		t.Fail()
	}
}
