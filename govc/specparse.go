package main

import (
	"fmt"
	"math/big"
	"strings"
	"unicode"
)

// ---- spec expression AST

type Expr interface{}

type EIdent struct{ Name string }
type EInt struct{ V *big.Int }
type EBool struct{ V bool }
type EStr struct{ V string }
type EChar struct{ V int64 }
type EUn struct {
	Op string
	X  Expr
}
type EBin struct {
	Op   string
	X, Y Expr
}
type ECall struct {
	Fun  string
	Args []Expr
}
type ESel struct {
	X    Expr
	Name string
}
type EIndex struct{ X, I Expr }
type ESliceE struct{ X, Lo, Hi Expr }
type EQuant struct {
	Forall   bool
	Vars     []QVar
	Body     Expr
	Patterns [][]Expr // optional explicit triggers: forall x T {p1, p2}{q} :: body
}
type QVar struct{ Name, Type string }
type ECond struct{ C, A, B Expr }

// ---- lexer

type tok struct {
	k string // "id","int","str","chr","op","eof"
	s string
}

func lexSpec(src string) ([]tok, error) {
	var toks []tok
	i := 0
	n := len(src)
	ops := []string{"<==>", "==>", "<<", ">>", "&^", "&&", "||", "==", "!=", "<=", ">=", "::", "+", "-", "*", "/", "%", "&", "|", "^", "<", ">", "!", "(", ")", "[", "]", ",", ".", "?", ":", "{", "}"}
	for i < n {
		c := src[i]
		if c == ' ' || c == '\t' || c == '\n' || c == '\r' {
			i++
			continue
		}
		if unicode.IsLetter(rune(c)) || c == '_' {
			j := i
			for j < n && (unicode.IsLetter(rune(src[j])) || unicode.IsDigit(rune(src[j])) || src[j] == '_' || src[j] == '$' || src[j] == '@' || src[j] == '#') {
				j++
			}
			toks = append(toks, tok{"id", src[i:j]})
			i = j
			continue
		}
		if unicode.IsDigit(rune(c)) {
			j := i
			for j < n && (unicode.IsLetter(rune(src[j])) || unicode.IsDigit(rune(src[j])) || src[j] == '_') {
				j++
			}
			toks = append(toks, tok{"int", src[i:j]})
			i = j
			continue
		}
		if c == '"' {
			j := i + 1
			var sb strings.Builder
			for j < n && src[j] != '"' {
				if src[j] == '\\' && j+1 < n {
					j++
					switch src[j] {
					case 'n':
						sb.WriteByte('\n')
					case 'r':
						sb.WriteByte('\r')
					case 't':
						sb.WriteByte('\t')
					default:
						sb.WriteByte(src[j])
					}
				} else {
					sb.WriteByte(src[j])
				}
				j++
			}
			if j >= n {
				return nil, fmt.Errorf("unterminated string")
			}
			toks = append(toks, tok{"str", sb.String()})
			i = j + 1
			continue
		}
		if c == '\'' {
			j := i + 1
			var v byte
			if j < n && src[j] == '\\' && j+1 < n {
				j++
				switch src[j] {
				case 'n':
					v = '\n'
				case 'r':
					v = '\r'
				case 't':
					v = '\t'
				case '0':
					v = 0
				default:
					v = src[j]
				}
				j++
			} else if j < n {
				v = src[j]
				j++
			}
			if j >= n || src[j] != '\'' {
				return nil, fmt.Errorf("bad char literal")
			}
			toks = append(toks, tok{"chr", fmt.Sprint(int(v))})
			i = j + 1
			continue
		}
		matched := false
		for _, op := range ops {
			if strings.HasPrefix(src[i:], op) {
				toks = append(toks, tok{"op", op})
				i += len(op)
				matched = true
				break
			}
		}
		if !matched {
			return nil, fmt.Errorf("unexpected character %q at %d in %q", c, i, src)
		}
	}
	toks = append(toks, tok{"eof", ""})
	return toks, nil
}

type specParser struct {
	toks []tok
	p    int
	src  string
}

func parseSpec(src string) (e Expr, err error) {
	toks, err := lexSpec(src)
	if err != nil {
		return nil, err
	}
	ps := &specParser{toks: toks, src: src}
	defer func() {
		if r := recover(); r != nil {
			if pe, ok := r.(parseErr); ok {
				err = fmt.Errorf("%s in %q", string(pe), src)
				return
			}
			panic(r)
		}
	}()
	e = ps.expr()
	if ps.peek().k != "eof" {
		ps.fail("trailing tokens at %q", ps.peek().s)
	}
	return e, nil
}

type parseErr string

func (ps *specParser) fail(f string, a ...interface{}) { panic(parseErr(fmt.Sprintf(f, a...))) }
func (ps *specParser) peek() tok                       { return ps.toks[ps.p] }
func (ps *specParser) next() tok                       { t := ps.toks[ps.p]; ps.p++; return t }
func (ps *specParser) isOp(s string) bool              { t := ps.peek(); return t.k == "op" && t.s == s }
func (ps *specParser) expect(s string) {
	if !ps.isOp(s) {
		ps.fail("expected %q, got %q", s, ps.peek().s)
	}
	ps.p++
}

func (ps *specParser) expr() Expr { return ps.iff() }

func (ps *specParser) iff() Expr {
	x := ps.implies()
	for ps.isOp("<==>") {
		ps.next()
		y := ps.implies()
		x = EBin{"<==>", x, y}
	}
	return x
}
func (ps *specParser) implies() Expr {
	x := ps.cond()
	if ps.isOp("==>") {
		ps.next()
		y := ps.implies()
		return EBin{"==>", x, y}
	}
	return x
}
func (ps *specParser) cond() Expr {
	c := ps.binary(1)
	if ps.isOp("?") {
		ps.next()
		a := ps.cond()
		ps.expect(":")
		b := ps.cond()
		return ECond{c, a, b}
	}
	return c
}

var binPrec = map[string]int{
	"||": 1, "&&": 2,
	"==": 3, "!=": 3, "<": 3, "<=": 3, ">": 3, ">=": 3,
	"+": 4, "-": 4, "|": 4, "^": 4,
	"*": 5, "/": 5, "%": 5, "<<": 5, ">>": 5, "&": 5, "&^": 5,
}

func (ps *specParser) binary(min int) Expr {
	x := ps.unary()
	for {
		t := ps.peek()
		if t.k != "op" {
			return x
		}
		p, ok := binPrec[t.s]
		if !ok || p < min {
			return x
		}
		ps.next()
		y := ps.binary(p + 1)
		x = EBin{t.s, x, y}
	}
}

func (ps *specParser) unary() Expr {
	t := ps.peek()
	if t.k == "op" && (t.s == "!" || t.s == "-" || t.s == "^" || t.s == "*") {
		ps.next()
		return EUn{t.s, ps.unary()}
	}
	if t.k == "id" && (t.s == "forall" || t.s == "exists") {
		ps.next()
		var vars []QVar
		for {
			nm := ps.next()
			if nm.k != "id" {
				ps.fail("quantifier variable expected")
			}
			tyname := ""
			if ps.isOp("*") {
				ps.next()
				tyname = "*"
			}
			ty := ps.next()
			if ty.k != "id" {
				ps.fail("quantifier type expected")
			}
			tyname += ty.s
			if ps.isOp(".") {
				ps.next()
				t2 := ps.next()
				tyname += "." + t2.s
			}
			vars = append(vars, QVar{nm.s, tyname})
			if ps.isOp(",") {
				ps.next()
				continue
			}
			break
		}
		var pats [][]Expr
		for ps.isOp("{") {
			ps.next()
			var grp []Expr
			for !ps.isOp("}") {
				grp = append(grp, ps.expr())
				if ps.isOp(",") {
					ps.next()
				}
			}
			ps.expect("}")
			pats = append(pats, grp)
		}
		ps.expect("::")
		body := ps.expr()
		return EQuant{t.s == "forall", vars, body, pats}
	}
	return ps.postfix()
}

func (ps *specParser) postfix() Expr {
	x := ps.primary()
	for {
		if ps.isOp(".") {
			ps.next()
			nm := ps.next()
			if nm.k != "id" && nm.k != "int" {
				ps.fail("selector expected")
			}
			// method-like call: x.has(k)
			if ps.isOp("(") {
				ps.next()
				args := []Expr{x}
				for !ps.isOp(")") {
					args = append(args, ps.expr())
					if ps.isOp(",") {
						ps.next()
					}
				}
				ps.expect(")")
				x = ECall{"." + nm.s, args}
				continue
			}
			x = ESel{x, nm.s}
			continue
		}
		if ps.isOp("[") {
			ps.next()
			var lo Expr
			if !ps.isOp(":") {
				lo = ps.expr()
			}
			if ps.isOp(":") {
				ps.next()
				var hi Expr
				if !ps.isOp("]") {
					hi = ps.expr()
				}
				ps.expect("]")
				x = ESliceE{x, lo, hi}
				continue
			}
			ps.expect("]")
			x = EIndex{x, lo}
			continue
		}
		return x
	}
}

func (ps *specParser) primary() Expr {
	t := ps.next()
	switch t.k {
	case "int":
		v, ok := new(big.Int).SetString(strings.ReplaceAll(t.s, "_", ""), 0)
		if !ok {
			ps.fail("bad integer %q", t.s)
		}
		return EInt{v}
	case "chr":
		v, _ := new(big.Int).SetString(t.s, 10)
		return EInt{v}
	case "str":
		return EStr{t.s}
	case "id":
		if t.s == "true" {
			return EBool{true}
		}
		if t.s == "false" {
			return EBool{false}
		}
		if ps.isOp("(") {
			ps.next()
			var args []Expr
			for !ps.isOp(")") {
				args = append(args, ps.expr())
				if ps.isOp(",") {
					ps.next()
				}
			}
			ps.expect(")")
			return ECall{t.s, args}
		}
		return EIdent{t.s}
	case "op":
		if t.s == "(" {
			e := ps.expr()
			ps.expect(")")
			return e
		}
	}
	ps.fail("unexpected token %q", t.s)
	return nil
}

// substExpr replaces identifiers by expressions (macro expansion).
func substExpr(e Expr, m map[string]Expr) Expr {
	switch x := e.(type) {
	case EIdent:
		if r, ok := m[x.Name]; ok {
			return r
		}
		return x
	case EUn:
		return EUn{x.Op, substExpr(x.X, m)}
	case EBin:
		return EBin{x.Op, substExpr(x.X, m), substExpr(x.Y, m)}
	case ECall:
		args := make([]Expr, len(x.Args))
		for i, a := range x.Args {
			args[i] = substExpr(a, m)
		}
		return ECall{x.Fun, args}
	case ESel:
		return ESel{substExpr(x.X, m), x.Name}
	case EIndex:
		return EIndex{substExpr(x.X, m), substExpr(x.I, m)}
	case ESliceE:
		var lo, hi Expr
		if x.Lo != nil {
			lo = substExpr(x.Lo, m)
		}
		if x.Hi != nil {
			hi = substExpr(x.Hi, m)
		}
		return ESliceE{substExpr(x.X, m), lo, hi}
	case EQuant:
		m2 := map[string]Expr{}
		for k, v := range m {
			m2[k] = v
		}
		for _, v := range x.Vars {
			delete(m2, v.Name)
		}
		var np [][]Expr
		for _, g := range x.Patterns {
			var ng []Expr
			for _, e := range g {
				ng = append(ng, substExpr(e, m2))
			}
			np = append(np, ng)
		}
		return EQuant{x.Forall, x.Vars, substExpr(x.Body, m2), np}
	case ECond:
		return ECond{substExpr(x.C, m), substExpr(x.A, m), substExpr(x.B, m)}
	}
	return e
}
