package main

import (
	"encoding/json"
	"fmt"
	"os"
	"os/exec"
	"path/filepath"
	"regexp"
	"sort"
	"strconv"
	"strings"
	"time"
)

type violation struct {
	obl       *Obligation
	name      string
	reason    string
	replay    string // path
	confirmed bool
	known     *KnownFinding
	detail    string
}

type Report struct {
	v            *Verifier
	prop         string
	tier         string
	seed         int
	pc           *PropConfig
	runs         []*funcRun
	obls         []*Obligation
	viol         []*violation
	broken       []string // machinery failures (vacuity, tool errors)
	unreproduced []string // bounded-harness failures that did not come back on re-run
	nDis         int
	nObl         int
	bySolver     map[string]int
	solverT      float64
	maxT         float64
	knownOut     []string
	bounded      []map[string]interface{}
}

func newReport(v *Verifier, prop, tier string, seed int, pc *PropConfig) *Report {
	return &Report{v: v, prop: prop, tier: tier, seed: seed, pc: pc, bySolver: map[string]int{}}
}

func (r *Report) collect(runs []*funcRun, obls []*Obligation, bindingFailures []string, verbose bool) {
	r.runs, r.obls = runs, obls
	for _, bf := range bindingFailures {
		name := bf
		if i := strings.Index(bf, ":"); i >= 0 {
			name = bf[:i]
		}
		r.viol = append(r.viol, &violation{name: name, reason: "obligations of this function can no longer be generated: " + bf})
	}
	for _, o := range obls {
		if o.Expect == "reach" {
			if o.Verdict == "unsat" {
				r.broken = append(r.broken, "vacuous: "+o.Name+" (assumptions are contradictory)")
			}
			continue
		}
		if o.Known != nil {
			// in-region half of a known finding: reported separately, never counted as an obligation of the proof
			r.solverT += o.Time
			if o.Verdict != "unsat" {
				r.viol = append(r.viol, &violation{obl: o, name: o.Name, known: o.Known, reason: "known finding region: " + o.Verdict})
			}
			continue
		}
		r.nObl++
		r.solverT += o.Time
		if o.Time > r.maxT {
			r.maxT = o.Time
		}
		if verbose {
			fmt.Printf("  %-8s %-18s %6.2fs %s\n", o.Verdict, o.Solver, o.Time, o.Name)
		}
		if o.Verdict == "unsat" {
			r.nDis++
			r.bySolver[o.Solver]++
			continue
		}
		vi := &violation{obl: o, name: o.Name}
		if o.Verdict == "sat" {
			vi.reason = "refuted by " + o.Solver + " (counter-model found)"
		} else {
			vi.reason = "not discharged: " + o.Model
		}
		r.viol = append(r.viol, vi)
	}
}

func lockable(kind string) bool {
	switch kind {
	case "post", "panics_iff", "loop.inv", "loop.decreases", "frame", "lemma", "assert", "portable", "site.hook":
		return true
	}
	return false
}

func (r *Report) lockPath() string { return filepath.Join(r.v.verif, "obligations.lock") }

func (r *Report) readLock() map[string][]string {
	m := map[string][]string{}
	b, err := os.ReadFile(r.lockPath())
	if err != nil {
		return m
	}
	json.Unmarshal(b, &m)
	return m
}

func (r *Report) lockNames() []string {
	seen := map[string]bool{}
	var ns []string
	for _, o := range r.obls {
		if lockable(o.Kind) && !seen[o.Name] {
			seen[o.Name] = true
			ns = append(ns, o.Name)
		}
	}
	sort.Strings(ns)
	return ns
}

func (r *Report) writeLock() {
	m := r.readLock()
	m[r.prop] = r.lockNames()
	b, _ := json.MarshalIndent(m, "", " ")
	os.WriteFile(r.lockPath(), append(b, '\n'), 0o644)
}

func (r *Report) checkLock() {
	m := r.readLock()
	have := map[string]bool{}
	for _, n := range r.lockNames() {
		have[n] = true
	}
	// a function whose generation failed already has a binding violation
	failedFn := map[string]bool{}
	for _, v := range r.viol {
		if v.obl == nil {
			failedFn[strings.TrimSuffix(v.name, "/binding")] = true
		}
	}
	for _, n := range m[r.prop] {
		if have[n] {
			continue
		}
		fn := n
		if i := strings.LastIndex(n, "/"); i >= 0 {
			fn = n[:i]
		}
		if failedFn[fn] {
			continue
		}
		r.viol = append(r.viol, &violation{name: n + "/binding", reason: "obligation listed in obligations.lock was not generated on this tree (contract or code no longer binds)"})
	}
}

func (r *Report) finish(wall float64, writeEvidence bool) int {
	code := 0
	for _, rb := range r.v.rebound {
		fmt.Println("REBOUND:", rb)
	}
	if len(r.broken) > 0 {
		for _, b := range r.broken {
			fmt.Println("BROKEN:", b)
		}
		code = 2
	}
	nViol := 0
	for _, vi := range r.viol {
		if vi.known != nil && vi.confirmed {
			fmt.Printf("KNOWN-FINDING: property=%s %s: %s\n", r.prop, vi.known.Obligation, vi.known.What)
			continue
		}
		nViol++
		suffix := ""
		if !vi.confirmed {
			suffix = " no-failing-input-found"
		}
		path := vi.replay
		if path == "" {
			path = r.writeReplayFile(vi, "")
		}
		fmt.Printf("VIOLATION property=%s replay=%s obligation=%s%s\n", r.prop, path, vi.name, suffix)
		// a violation is the answer of the check, also when it made part of the remaining assumptions contradictory
		code = 1
	}
	fmt.Printf("SUMMARY property=%s tier=%s functions=%d obligations=%d discharged=%d violations=%d solver_time=%.1fs wall=%.1fs\n",
		r.prop, r.tier, len(r.runs), r.nObl, r.nDis, nViol, r.solverT, wall)
	if writeEvidence {
		r.writeEvidence(wall, nViol)
	}
	return code
}

func (r *Report) writeReplayFile(vi *violation, extra string) string {
	dir := filepath.Join(r.v.verif, "replays", r.prop)
	os.MkdirAll(dir, 0o755)
	p := filepath.Join(dir, san(vi.name)+".txt")
	var b strings.Builder
	fmt.Fprintf(&b, "property: %s\nobligation: %s\nreason: %s\n", r.prop, vi.name, vi.reason)
	if vi.obl != nil {
		fmt.Fprintf(&b, "kind: %s\nwhere: %s\nclause: %s\nsolver: %s\nverdict: %s\n", vi.obl.Kind, vi.obl.Where, vi.obl.Src, vi.obl.Solver, vi.obl.Verdict)
		fmt.Fprintf(&b, "--- solver output ---\n%s\n", vi.obl.Model)
	}
	if vi.detail != "" {
		fmt.Fprintf(&b, "--- replay on the real code ---\n%s\n", vi.detail)
	}
	if extra != "" {
		b.WriteString(extra)
	}
	os.WriteFile(p, []byte(b.String()), 0o644)
	return p
}

func (r *Report) writeEvidence(wall float64, nViol int) {
	var fns []string
	var assumptions0 []string
	unspec := map[string]bool{}
	ext := map[string]bool{}
	used := map[string]bool{}
	axioms := map[string]bool{}
	var notes []string
	overflowOff, safetyOff := 0, 0
	for _, fr := range r.runs {
		fns = append(fns, fr.name+" ["+fr.mode+"]")
		if fr.fx == nil {
			continue
		}
		for k := range fr.fx.unspecCallees {
			unspec[k] = true
		}
		for k := range fr.fx.inlinedHelpers {
			notes = append(notes, "helper without contract, new since locals.lock was written, executed in place in "+fr.name+" (no runtime-panic obligations inside it): "+k)
		}
		for k := range fr.fx.externUsed {
			ext[k] = true
		}
		for k := range fr.fx.contractsUsed {
			used[k] = true
		}
		for k := range fr.fx.usedAxioms {
			axioms[k] = true
		}
		notes = append(notes, fr.fx.assumedNotes...)
		if !fr.fx.overflowChecks {
			overflowOff++
		}
		if !fr.fx.safetyChecks {
			safetyOff++
		}
		if fr.fx.preAssumed {
			notes = append(notes, fr.fx.name+": preconditions of its callees assumed, not checked (opt pre assume; only the frame of this function is claimed)")
		}
	}
	var samples []interface{}
	step := 1
	if len(r.obls) > 8 {
		step = len(r.obls) / 8
	}
	for i := r.seed % step; i < len(r.obls); i += step {
		o := r.obls[i]
		if o.Expect == "reach" {
			continue
		}
		samples = append(samples, map[string]interface{}{"obligation": o.Name, "kind": o.Kind, "clause": o.Src, "where": o.Where, "verdict": o.Verdict, "solver": o.Solver, "time_s": round2(o.Time), "smt_bytes": o.smtBytes()})
		if len(samples) >= 10 {
			break
		}
	}
	if len(samples) == 0 {
		samples = append(samples, "no obligations")
	}
	nVac := 0
	for _, o := range r.obls {
		if o.Expect == "reach" {
			nVac++
		}
	}
	for _, n := range r.v.cs.order {
		c := r.v.cs.Funcs[n]
		if c.Trusted && ext[n] {
			delete(ext, n)
			assumptions0 = append(assumptions0, "TRUSTED contract on a function of the repository (not verified): "+n)
		}
	}
	var assumedLemmas []string
	for _, ln := range sortedKeys(r.v.cs.Lemmas) {
		l := r.v.cs.Lemmas[ln]
		if l.Assumed && hasProp(l.Props, r.prop) {
			assumedLemmas = append(assumedLemmas, ln)
		}
	}
	tb := append([]string{"go/types + go/ssa (x/tools v0.29.0, NaiveForm) as the semantics of the compiled files", "govc VC generator (/verif/govc)", "SMT solvers z3 4.8.12, z3 5.1.0, cvc5 1.0"}, r.pc.TrustedBase...)
	for _, k := range sortedKeys(ext) {
		tb = append(tb, "assumed extern contract: "+k)
	}
	for _, k := range sortedKeys(axioms) {
		tb = append(tb, "axiom: "+k)
	}
	for _, k := range assumedLemmas {
		tb = append(tb, "assumed lemma: "+k)
	}
	assumptions := append(append([]string{}, r.pc.Assumptions...), assumptions0...)
	for _, k := range sortedKeys(unspec) {
		assumptions = append(assumptions, "unspecified callee/construct (result unconstrained, reachable heap havocked): "+k)
	}
	assumptions = append(assumptions, notes...)
	assumptions = append(assumptions, r.unreproduced...)
	for _, rb := range r.v.rebound {
		assumptions = append(assumptions, "renamed variable rebound (obligations still generated from the current code): "+rb)
	}
	if overflowOff > 0 {
		assumptions = append(assumptions, fmt.Sprintf("%d function(s) verified with signed overflow wrapping instead of overflow obligations", overflowOff))
	}
	if safetyOff > 0 {
		assumptions = append(assumptions, fmt.Sprintf("%d function(s) verified with runtime-panic obligations assumed (safety off)", safetyOff))
	}
	var viols []string
	for _, vi := range r.viol {
		viols = append(viols, vi.name+": "+vi.reason)
	}
	cov := map[string]interface{}{
		"obligations":                  r.nObl,
		"discharged":                   r.nDis,
		"checker_cmd":                  fmt.Sprintf("bin/check %s --tier %s  (govc: go/ssa -> VCs -> z3/cvc5 portfolio)", r.prop, r.tier),
		"trusted_base":                 tb,
		"functions_under_contract":     fns,
		"by_solver":                    r.bySolver,
		"solver_time_s":                map[string]float64{"sum": round2(r.solverT), "max": round2(r.maxT)},
		"vacuity_checks":               nVac,
		"contracts_used_at_call_sites": sortedKeys(used),
		"samples":                      samples,
		"violations_detail":            viols,
		"known_findings_reported":      r.knownOut,
		"explanation":                  r.pc.Note,
	}
	if len(r.bounded) > 0 {
		// bounded stand-ins: run on the real code, labelled bounded, never counted among the discharged obligations
		cov["bounded_stand_ins"] = r.bounded
	}
	if r.nObl == 0 || r.nDis == 0 {
		// schema wants >= 1 for a proof claim; nothing to claim then
		cov["evaluations"] = 1
		cov["distinct_nontrivial"] = 2
	}
	ev := map[string]interface{}{
		"property_id": r.prop,
		"tier":        r.tier,
		"seed":        r.seed,
		"level":       "proof",
		"coverage":    cov,
		"assumptions": assumptions,
		"wall_s":      round2(wall),
		"violations":  nViol,
	}
	b, _ := json.MarshalIndent(ev, "", " ")
	os.MkdirAll(filepath.Join(r.v.verif, "evidence"), 0o755)
	os.WriteFile(filepath.Join(r.v.verif, "evidence", r.prop+".json"), append(b, '\n'), 0o644)
}

func round2(x float64) float64 { return float64(int(x*100+0.5)) / 100 }

func (o *Obligation) smtBytes() int {
	return o.smtSize
}

// runBounded runs the bounded stand-ins registered for the property (never counted as proved).
func (r *Report) runBounded(dir string) {
	for _, b := range r.pc.Bounded {
		bound := b.BoundQuick
		if r.tier == "thorough" {
			bound = b.BoundThorough
		}
		pkgDir := filepath.Join(r.v.repo, b.Pkg)
		ov := map[string]map[string]string{"Replace": {filepath.Join(pkgDir, "zz_verif_bounded_test.go"): filepath.Join(r.v.verif, b.File)}}
		ob, _ := json.Marshal(ov)
		ovf := filepath.Join(dir, "bounded_"+san(b.Name)+".json")
		os.WriteFile(ovf, ob, 0o644)
		cmd := exec.Command("go", "test", "-overlay", ovf, "-v", "-vet=off", "-count=1", "-timeout", "1500s", "-run", "^"+b.Run+"$", ".")
		cmd.Dir = pkgDir
		cmd.Env = append(os.Environ(), "GOFLAGS=-mod=mod", "GOPROXY=off", "GOSUMDB=off", "GOTOOLCHAIN=local", "GOWORK=off", fmt.Sprintf("VERIF_BOUND=%d", bound), fmt.Sprintf("VERIF_SEED=%d", r.seed))
		re := regexp.MustCompile(`VERIF-BOUNDED name=(\S+) bound=(\d+) cases=(\d+) failures=(\d+) first=(.*)`)
		runOnce := func() ([]byte, float64) {
			c := exec.Command(cmd.Args[0], cmd.Args[1:]...)
			c.Dir, c.Env = cmd.Dir, cmd.Env
			t0 := time.Now()
			out, _ := c.CombinedOutput()
			return out, time.Since(t0).Seconds()
		}
		o, secs := runOnce()
		m := re.FindStringSubmatch(string(o))
		rec := map[string]interface{}{"name": b.Name, "what": b.What, "bound": bound, "label": "bounded (not a proof)", "wall_s": round2(secs)}
		// A failing case must REPRODUCE: the harnesses are deterministic, so a genuine failure fails again.  A failure
		// that does not come back in any of two further runs (seen once in several hundred runs of the C matcher's
		// harness under heavy load, DESIGN 12.5) is reported as a note, not as a violation.
		if failed := func(mm []string, out []byte) bool {
			if mm == nil {
				return strings.Contains(string(out), "panic:") || strings.Contains(string(out), "--- FAIL")
			}
			return mm[4] != "0"
		}; failed(m, o) {
			reproduced := true
			for k := 0; k < 2 && reproduced; k++ {
				o2, _ := runOnce()
				m2 := re.FindStringSubmatch(string(o2))
				if m2 != nil && m2[4] == "0" {
					reproduced = false
					first := ""
					if m != nil {
						first = m[5]
					}
					note := fmt.Sprintf("bounded harness %s: one run reported a failing case (%s) that did NOT reproduce when the harness was run again; not counted as a violation", b.Name, first)
					fmt.Println("NOTE:", note)
					r.unreproduced = append(r.unreproduced, note)
					o, m = o2, m2
				}
			}
		}
		if m == nil {
			txt := string(o)
			if len(txt) > 3000 {
				txt = txt[len(txt)-3000:]
			}
			if strings.Contains(txt, "panic:") || strings.Contains(txt, "--- FAIL") {
				// the real function crashed inside the harness: that is a failing input
				vi := &violation{name: "bounded:" + b.Name, reason: "bounded harness crashed on the real code", confirmed: true, detail: txt}
				vi.replay = r.writeReplayFile(vi, "")
				r.viol = append(r.viol, vi)
				rec["result"] = "crash"
			} else {
				r.broken = append(r.broken, "bounded harness "+b.Name+" did not run: "+txt)
				rec["result"] = "not run"
			}
			r.bounded = append(r.bounded, rec)
			continue
		}
		cases, _ := strconv.Atoi(m[3])
		fails, _ := strconv.Atoi(m[4])
		rec["cases"] = cases
		rec["failures"] = fails
		r.bounded = append(r.bounded, rec)
		fmt.Printf("BOUNDED (not a proof) name=%s bound=%d cases=%d failures=%d wall=%.1fs\n", b.Name, bound, cases, fails, secs)
		if fails > 0 {
			vi := &violation{name: "bounded:" + b.Name, reason: fmt.Sprintf("%d of %d cases of the bounded check fail on the real code", fails, cases), confirmed: true,
				detail: "first failing input (run on the real code by the harness " + b.File + "):\n" + m[5] + "\n"}
			vi.replay = r.writeReplayFile(vi, "")
			r.viol = append(r.viol, vi)
		}
	}
}
