package main

import (
	"fmt"
	"go/types"
	"math/big"
	"regexp"
	"strings"
)

// Term is an SMT-LIB term with its sort.
type Term struct {
	S  string
	So string
}

const (
	SInt  = "Int"
	SBool = "Bool"
	SStr  = "Str"
	SFlt  = "Flt"
)

func bvSort(w int) string { return fmt.Sprintf("(_ BitVec %d)", w) }

var bvRe = regexp.MustCompile(`^\(_ BitVec (\d+)\)$`)

func bvWidth(so string) int {
	m := bvRe.FindStringSubmatch(so)
	if m == nil {
		return 0
	}
	var w int
	fmt.Sscanf(m[1], "%d", &w)
	return w
}

func arrSort(idx, elem string) string { return "(Array " + idx + " " + elem + ")" }

// arrParts splits "(Array A B)" into A and B.
func arrParts(so string) (string, string, bool) {
	if !strings.HasPrefix(so, "(Array ") {
		return "", "", false
	}
	body := so[len("(Array ") : len(so)-1]
	// first sort token
	depth := 0
	for i := 0; i < len(body); i++ {
		switch body[i] {
		case '(':
			depth++
		case ')':
			depth--
		case ' ':
			if depth == 0 {
				return body[:i], body[i+1:], true
			}
		}
	}
	return "", "", false
}

func T(so string, f string, a ...interface{}) Term { return Term{fmt.Sprintf(f, a...), so} }

func app(so string, op string, args ...Term) Term {
	var b strings.Builder
	b.WriteString("(")
	b.WriteString(op)
	for _, a := range args {
		b.WriteString(" ")
		b.WriteString(a.S)
	}
	b.WriteString(")")
	return Term{b.String(), so}
}

var tTrue = Term{"true", SBool}
var tFalse = Term{"false", SBool}

func tNot(a Term) Term {
	if a.S == "true" {
		return tFalse
	}
	if a.S == "false" {
		return tTrue
	}
	return app(SBool, "not", a)
}
func tAnd(as ...Term) Term {
	var r []Term
	for _, a := range as {
		if a.S == "true" {
			continue
		}
		if a.S == "false" {
			return tFalse
		}
		r = append(r, a)
	}
	if len(r) == 0 {
		return tTrue
	}
	if len(r) == 1 {
		return r[0]
	}
	return app(SBool, "and", r...)
}
func tOr(as ...Term) Term {
	var r []Term
	for _, a := range as {
		if a.S == "false" {
			continue
		}
		if a.S == "true" {
			return tTrue
		}
		r = append(r, a)
	}
	if len(r) == 0 {
		return tFalse
	}
	if len(r) == 1 {
		return r[0]
	}
	return app(SBool, "or", r...)
}
func tImp(a, b Term) Term {
	if a.S == "true" {
		return b
	}
	if a.S == "false" || b.S == "true" {
		return tTrue
	}
	return app(SBool, "=>", a, b)
}
func tEq(a, b Term) Term {
	if a.S == b.S {
		return tTrue
	}
	return app(SBool, "=", a, b)
}
func tIte(c, a, b Term) Term {
	if c.S == "true" {
		return a
	}
	if c.S == "false" {
		return b
	}
	if a.S == b.S {
		return a
	}
	return app(a.So, "ite", c, a, b)
}
func tSel(arr, i Term) Term {
	_, e, ok := arrParts(arr.So)
	if !ok {
		panic(vcErr("select on non-array sort %s (%s)", arr.So, arr.S))
	}
	return app(e, "select", arr, i)
}
func tStore(arr, i, v Term) Term { return app(arr.So, "store", arr, i, v) }

func intLit(v *big.Int) Term {
	if v.Sign() < 0 {
		return Term{"(- " + new(big.Int).Neg(v).String() + ")", SInt}
	}
	return Term{v.String(), SInt}
}
func intLit64(v int64) Term { return intLit(big.NewInt(v)) }

func bvLit(v *big.Int, w int) Term {
	m := new(big.Int).Lsh(big.NewInt(1), uint(w))
	x := new(big.Int).Mod(v, m)
	return Term{fmt.Sprintf("(_ bv%s %d)", x.String(), w), bvSort(w)}
}

func pow2(w int) *big.Int { return new(big.Int).Lsh(big.NewInt(1), uint(w)) }

// ---- Go integer type info

type intInfo struct {
	w      int
	signed bool
}

func intInfoOf(t types.Type) (intInfo, bool) {
	if t == nil {
		return intInfo{}, false
	}
	b, ok := t.Underlying().(*types.Basic)
	if !ok {
		return intInfo{}, false
	}
	switch b.Kind() {
	case types.Int, types.Int64:
		return intInfo{64, true}, true
	case types.Int32:
		return intInfo{32, true}, true
	case types.Int16:
		return intInfo{16, true}, true
	case types.Int8:
		return intInfo{8, true}, true
	case types.Uint, types.Uint64, types.Uintptr:
		return intInfo{64, false}, true
	case types.Uint32:
		return intInfo{32, false}, true
	case types.Uint16:
		return intInfo{16, false}, true
	case types.Uint8:
		return intInfo{8, false}, true
	case types.UntypedInt, types.UntypedRune:
		return intInfo{64, true}, true
	}
	return intInfo{}, false
}

func (ii intInfo) min() *big.Int {
	if !ii.signed {
		return big.NewInt(0)
	}
	return new(big.Int).Neg(pow2(ii.w - 1))
}
func (ii intInfo) max() *big.Int {
	if !ii.signed {
		return new(big.Int).Sub(pow2(ii.w), big.NewInt(1))
	}
	return new(big.Int).Sub(pow2(ii.w-1), big.NewInt(1))
}

type vcError struct{ msg string }

func (e vcError) Error() string { return e.msg }
func vcErr(f string, a ...interface{}) vcError {
	return vcError{fmt.Sprintf(f, a...)}
}

var identSan = regexp.MustCompile(`[^A-Za-z0-9_.$]`)

func san(s string) string { return identSan.ReplaceAllString(s, "_") }
