package main

import (
	"fmt"
	"math/big"
	"strings"
)

// Wide reading of a [portable] clause.
//
// A portable clause has ONE meaning: its integer reading (mathematical integers, no wrap-around).
// When the function under contract is verified in bit-vector mode the clause is evaluated in integer
// mode over placeholders (bv2nat <leaf>) and then translated, exactly, into signed bit-vector arithmetic
// wide enough that no intermediate value can overflow (the width is computed from a magnitude bound of
// every sub-term).  Int-mode callers use the integer reading directly.

type sx struct {
	atom string
	list []*sx
}

func parseSx(s string) (*sx, error) {
	toks := tokenizeSx(s)
	p := 0
	var rec func() (*sx, error)
	rec = func() (*sx, error) {
		if p >= len(toks) {
			return nil, fmt.Errorf("unexpected end of term")
		}
		t := toks[p]
		p++
		if t == "(" {
			n := &sx{}
			for p < len(toks) && toks[p] != ")" {
				c, err := rec()
				if err != nil {
					return nil, err
				}
				n.list = append(n.list, c)
			}
			if p >= len(toks) {
				return nil, fmt.Errorf("unbalanced term")
			}
			p++
			return n, nil
		}
		if t == ")" {
			return nil, fmt.Errorf("unexpected )")
		}
		return &sx{atom: t}, nil
	}
	r, err := rec()
	if err != nil {
		return nil, err
	}
	if p != len(toks) {
		return nil, fmt.Errorf("trailing tokens in term")
	}
	return r, nil
}

func tokenizeSx(s string) []string {
	var toks []string
	i := 0
	for i < len(s) {
		c := s[i]
		switch {
		case c == ' ' || c == '\n' || c == '\t':
			i++
		case c == '(' || c == ')':
			toks = append(toks, string(c))
			i++
		default:
			j := i
			for j < len(s) && s[j] != ' ' && s[j] != '(' && s[j] != ')' && s[j] != '\n' && s[j] != '\t' {
				j++
			}
			toks = append(toks, s[i:j])
			i = j
		}
	}
	return toks
}

func (n *sx) String() string {
	if n.list == nil && n.atom != "" {
		return n.atom
	}
	var ps []string
	for _, c := range n.list {
		ps = append(ps, c.String())
	}
	return "(" + strings.Join(ps, " ") + ")"
}

// wideInfo: magnitude bound |v| < 2^bits, and whether v >= 0 is guaranteed.
type wideInfo struct {
	bits   int
	nonneg bool
}

type wideTr struct {
	leafWidth func(bvterm string) int // width of the bit-vector under a bv2nat
	maxBits   int
}

func (w *wideTr) boundInt(n *sx) (wideInfo, error) {
	upd := func(i wideInfo) (wideInfo, error) {
		if i.bits > w.maxBits {
			w.maxBits = i.bits
		}
		return i, nil
	}
	if n.list == nil {
		if v, ok := new(big.Int).SetString(n.atom, 10); ok {
			return upd(wideInfo{v.BitLen() + 1, true})
		}
		return wideInfo{}, fmt.Errorf("integer atom %q is not translatable", n.atom)
	}
	head := n.list[0].atom
	args := n.list[1:]
	switch head {
	case "bv2nat":
		lw := w.leafWidth(args[0].String())
		if lw == 0 {
			return wideInfo{}, fmt.Errorf("unknown leaf width for %s", args[0])
		}
		return upd(wideInfo{lw, true})
	case "+":
		b, nn := 0, true
		for _, a := range args {
			i, err := w.boundInt(a)
			if err != nil {
				return i, err
			}
			if i.bits > b {
				b = i.bits
			}
			nn = nn && i.nonneg
		}
		return upd(wideInfo{b + len(args), nn})
	case "-":
		if len(args) == 1 {
			i, err := w.boundInt(args[0])
			if err != nil {
				return i, err
			}
			return upd(wideInfo{i.bits, false})
		}
		b := 0
		for _, a := range args {
			i, err := w.boundInt(a)
			if err != nil {
				return i, err
			}
			if i.bits > b {
				b = i.bits
			}
		}
		return upd(wideInfo{b + len(args), false})
	case "*":
		b, nn := 0, true
		for _, a := range args {
			i, err := w.boundInt(a)
			if err != nil {
				return i, err
			}
			b += i.bits
			nn = nn && i.nonneg
		}
		return upd(wideInfo{b, nn})
	case "div", "mod":
		if len(args) != 2 {
			return wideInfo{}, fmt.Errorf("%s arity", head)
		}
		d, ok := new(big.Int).SetString(args[1].String(), 10)
		if !ok || d.Sign() <= 0 {
			return wideInfo{}, fmt.Errorf("%s by a non-literal or non-positive divisor is not translatable", head)
		}
		i, err := w.boundInt(args[0])
		if err != nil {
			return i, err
		}
		if head == "mod" {
			return upd(wideInfo{d.BitLen() + 1, true})
		}
		return upd(wideInfo{i.bits + 1, i.nonneg})
	case "ite":
		a, err := w.boundInt(args[1])
		if err != nil {
			return a, err
		}
		b, err := w.boundInt(args[2])
		if err != nil {
			return b, err
		}
		if _, err := w.boundBool(args[0]); err != nil {
			return a, err
		}
		if b.bits > a.bits {
			a.bits = b.bits
		}
		a.nonneg = a.nonneg && b.nonneg
		return upd(a)
	}
	return wideInfo{}, fmt.Errorf("integer operator %q is not translatable", head)
}

func (w *wideTr) boundBool(n *sx) (bool, error) {
	if n.list == nil {
		return true, nil // boolean constant or variable
	}
	head := n.list[0].atom
	args := n.list[1:]
	switch head {
	case "and", "or", "not", "=>":
		for _, a := range args {
			if _, err := w.boundBool(a); err != nil {
				return false, err
			}
		}
		return true, nil
	case "<", "<=", ">", ">=":
		for _, a := range args {
			if _, err := w.boundInt(a); err != nil {
				return false, err
			}
		}
		return true, nil
	case "=", "ite":
		// integer or boolean arguments
		for _, a := range args {
			if _, err := w.boundInt(a); err != nil {
				if _, err2 := w.boundBool(a); err2 != nil {
					return false, err
				}
			}
		}
		return true, nil
	}
	return false, fmt.Errorf("boolean operator %q is not translatable", head)
}

func (w *wideTr) isInt(n *sx) bool {
	save := w.maxBits
	_, err := w.boundInt(n)
	w.maxBits = save
	return err == nil
}

func (w *wideTr) trInt(n *sx, W int) string {
	if n.list == nil {
		v, _ := new(big.Int).SetString(n.atom, 10)
		return bvLit(v, W).S
	}
	head := n.list[0].atom
	args := n.list[1:]
	bin := func(op string) string {
		r := w.trInt(args[0], W)
		for _, a := range args[1:] {
			r = fmt.Sprintf("(%s %s %s)", op, r, w.trInt(a, W))
		}
		return r
	}
	switch head {
	case "bv2nat":
		lw := w.leafWidth(args[0].String())
		return fmt.Sprintf("((_ zero_extend %d) %s)", W-lw, args[0].String())
	case "+":
		return bin("bvadd")
	case "*":
		return bin("bvmul")
	case "-":
		if len(args) == 1 {
			return fmt.Sprintf("(bvneg %s)", w.trInt(args[0], W))
		}
		return bin("bvsub")
	case "mod":
		return fmt.Sprintf("(bvsmod %s %s)", w.trInt(args[0], W), w.trInt(args[1], W))
	case "div":
		a, d := w.trInt(args[0], W), w.trInt(args[1], W)
		return fmt.Sprintf("(bvsdiv (bvsub %s (bvsmod %s %s)) %s)", a, a, d, d)
	case "ite":
		return fmt.Sprintf("(ite %s %s %s)", w.trBool(args[0], W), w.trInt(args[1], W), w.trInt(args[2], W))
	}
	panic(vcErr("wide translation: %s", head))
}

func (w *wideTr) trBool(n *sx, W int) string {
	if n.list == nil {
		return n.atom
	}
	head := n.list[0].atom
	args := n.list[1:]
	switch head {
	case "and", "or", "not", "=>":
		var ps []string
		for _, a := range args {
			ps = append(ps, w.trBool(a, W))
		}
		return "(" + head + " " + strings.Join(ps, " ") + ")"
	case "<", "<=", ">", ">=":
		op := map[string]string{"<": "bvslt", "<=": "bvsle", ">": "bvsgt", ">=": "bvsge"}[head]
		return fmt.Sprintf("(%s %s %s)", op, w.trInt(args[0], W), w.trInt(args[1], W))
	case "=":
		if w.isInt(args[0]) {
			return fmt.Sprintf("(= %s %s)", w.trInt(args[0], W), w.trInt(args[1], W))
		}
		return fmt.Sprintf("(= %s %s)", w.trBool(args[0], W), w.trBool(args[1], W))
	case "ite":
		return fmt.Sprintf("(ite %s %s %s)", w.trBool(args[0], W), w.trBool(args[1], W), w.trBool(args[2], W))
	}
	panic(vcErr("wide translation: %s", head))
}

// wideOfInt translates an integer-mode boolean term (over (bv2nat leaf) atoms) into bit-vectors.
func wideOfInt(t Term, leafWidth func(string) int) (Term, error) {
	n, err := parseSx(t.S)
	if err != nil {
		return Term{}, err
	}
	w := &wideTr{leafWidth: leafWidth}
	if _, err := w.boundBool(n); err != nil {
		return Term{}, err
	}
	W := w.maxBits + 2
	if W < 8 {
		W = 8
	}
	if W > 4096 {
		return Term{}, fmt.Errorf("wide translation needs %d bits", W)
	}
	return Term{w.trBool(n, W), SBool}, nil
}
