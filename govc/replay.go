package main

import (
	"context"
	"encoding/json"
	"fmt"
	"go/types"
	"math/big"
	"os"
	"os/exec"
	"path/filepath"
	"regexp"
	"strings"
	"time"

	"golang.org/x/tools/go/ssa"
)

// inputLeaf describes one leaf constant of a parameter.
type inputLeaf struct {
	Const string
	Param int
	Sort  string
	Typ   types.Type
}

// parseGetValue parses "((name value) (name value) ...)" from solver output (after the sat line).
var gvRe = regexp.MustCompile(`\(([^\s()]+)\s+((?:\(_ bv\d+ \d+\))|(?:#x[0-9a-fA-F]+)|(?:#b[01]+)|(?:\(- \d+\))|(?:[^\s()]+))\)`)

func parseModelValues(out string) map[string]string {
	m := map[string]string{}
	for _, mm := range gvRe.FindAllStringSubmatch(out, -1) {
		m[mm[1]] = mm[2]
	}
	return m
}

func modelInt(s string) (*big.Int, bool) {
	s = strings.TrimSpace(s)
	if strings.HasPrefix(s, "(- ") {
		v, ok := new(big.Int).SetString(strings.TrimSuffix(strings.TrimPrefix(s, "(- "), ")"), 10)
		if ok {
			v.Neg(v)
		}
		return v, ok
	}
	if strings.HasPrefix(s, "#x") {
		return new(big.Int).SetString(s[2:], 16)
	}
	if strings.HasPrefix(s, "#b") {
		return new(big.Int).SetString(s[2:], 2)
	}
	if strings.HasPrefix(s, "(_ bv") {
		f := strings.Fields(strings.TrimPrefix(s, "(_ bv"))
		return new(big.Int).SetString(f[0], 10)
	}
	return new(big.Int).SetString(s, 10)
}

// goLiteral builds a Go expression of type t from the leaf values (in leaves order); returns consumed count.
func goLiteral(t types.Type, vals []*big.Int, bools []bool, kinds []string, pos *int, qual types.Qualifier) (string, bool) {
	switch u := t.Underlying().(type) {
	case *types.Basic:
		i := *pos
		*pos = i + 1
		if u.Info()&types.IsBoolean != 0 {
			return fmt.Sprintf("%v", bools[i]), true
		}
		if u.Info()&types.IsInteger != 0 {
			v := new(big.Int).Set(vals[i])
			if ii, ok := intInfoOf(t); ok && ii.signed && v.Cmp(pow2(ii.w-1)) >= 0 {
				v.Sub(v, pow2(ii.w))
			}
			return fmt.Sprintf("%s(%s)", types.TypeString(t, qual), v.String()), true
		}
		return "", false
	case *types.Struct:
		var fs []string
		for k := 0; k < u.NumFields(); k++ {
			e, ok := goLiteral(u.Field(k).Type(), vals, bools, kinds, pos, qual)
			if !ok {
				return "", false
			}
			fs = append(fs, u.Field(k).Name()+": "+e)
		}
		return types.TypeString(t, qual) + "{" + strings.Join(fs, ", ") + "}", true
	}
	return "", false
}

// resultPrinters: Go expressions printing each leaf of a result value.
func leafExprs(t types.Type, base string) ([]string, bool) {
	switch u := t.Underlying().(type) {
	case *types.Basic:
		if u.Info()&(types.IsInteger|types.IsBoolean) != 0 {
			return []string{base}, true
		}
		return nil, false
	case *types.Struct:
		var r []string
		for k := 0; k < u.NumFields(); k++ {
			es, ok := leafExprs(u.Field(k).Type(), base+"."+u.Field(k).Name())
			if !ok {
				return nil, false
			}
			r = append(r, es...)
		}
		return r, true
	}
	return nil, false
}

type replayOutcome struct {
	ran      bool
	panicked bool
	results  []string // leaf values as printed
	log      string
	driver   string
	timedOut bool
}

// runValueReplay calls the real function on scalar/struct inputs taken from the model.
func (r *Report) runValueReplay(fx *fnExec, model map[string]string, dir string) replayOutcome {
	fn := fx.fn
	var out replayOutcome
	if fn == nil || fn.Pkg == nil {
		return out
	}
	pkg := fn.Pkg.Pkg
	qual := func(p *types.Package) string {
		if p == pkg {
			return ""
		}
		return p.Name()
	}
	var args []string
	for pi, p := range fn.Params {
		var vals []*big.Int
		var bools []bool
		var kinds []string
		for _, il := range fx.inputLeaves {
			if il.Param != pi {
				continue
			}
			mv, ok := model[il.Const]
			if !ok {
				mv = "0"
				if il.Sort == SBool {
					mv = "false"
				}
			}
			if il.Sort == SBool {
				bools = append(bools, mv == "true")
				vals = append(vals, nil)
			} else {
				v, ok := modelInt(mv)
				if !ok {
					out.log = "cannot read model value " + mv + " for " + il.Const
					return out
				}
				vals = append(vals, v)
				bools = append(bools, false)
			}
			kinds = append(kinds, il.Sort)
		}
		pos := 0
		e, ok := goLiteral(p.Type(), vals, bools, kinds, &pos, qual)
		if !ok {
			out.log = "generic replay driver does not support parameter type " + p.Type().String()
			return out
		}
		args = append(args, e)
	}
	// call expression
	var call string
	name := fn.Name()
	if fn.Signature.Recv() != nil {
		call = fmt.Sprintf("(%s).%s(%s)", args[0], name, strings.Join(args[1:], ", "))
	} else {
		call = fmt.Sprintf("%s(%s)", name, strings.Join(args, ", "))
	}
	res := fn.Signature.Results()
	var lhs []string
	var prints []string
	for i := 0; i < res.Len(); i++ {
		lhs = append(lhs, fmt.Sprintf("r%d", i))
		es, ok := leafExprs(res.At(i).Type(), fmt.Sprintf("r%d", i))
		if !ok {
			out.log = "generic replay driver does not support result type " + res.At(i).Type().String()
			return out
		}
		prints = append(prints, es...)
	}
	var src strings.Builder
	fmt.Fprintf(&src, "package %s\n\nimport (\n\t\"fmt\"\n\t\"testing\"\n)\n\nfunc TestVerifReplay(t *testing.T) {\n", pkg.Name())
	src.WriteString("\tpanicked := false\n\tvar leaves []string\n\tfunc() {\n\t\tdefer func() {\n\t\t\tif e := recover(); e != nil {\n\t\t\t\tpanicked = true\n\t\t\t}\n\t\t}()\n")
	if len(lhs) > 0 {
		fmt.Fprintf(&src, "\t\t%s := %s\n", strings.Join(lhs, ", "), call)
		for _, p := range prints {
			fmt.Fprintf(&src, "\t\tleaves = append(leaves, fmt.Sprint(%s))\n", p)
		}
	} else {
		fmt.Fprintf(&src, "\t\t%s\n", call)
	}
	src.WriteString("\t}()\n\tfmt.Printf(\"VERIF-REPLAY panicked=%v leaves=%q\\n\", panicked, leaves)\n}\n")
	out.driver = src.String()
	// overlay
	pkgDir := filepath.Dir(r.v.fset.Position(fn.Pos()).Filename)
	drv := filepath.Join(dir, fmt.Sprintf("replay_%x_test.go", hashStr(fx.name+out.driver)))
	os.WriteFile(drv, []byte(out.driver), 0o644)
	ov := map[string]map[string]string{"Replace": {filepath.Join(pkgDir, "zz_verif_replay_test.go"): drv}}
	ob, _ := json.Marshal(ov)
	ovf := drv + ".overlay.json"
	os.WriteFile(ovf, ob, 0o644)
	cmd := exec.Command("go", "test", "-overlay", ovf, "-v", "-vet=off", "-count=1", "-timeout", "60s", "-run", "^TestVerifReplay$", ".")
	cmd.Dir = pkgDir
	cmd.Env = append(os.Environ(), "GOFLAGS=-mod=mod", "GOPROXY=off", "GOSUMDB=off", "GOTOOLCHAIN=local", "GOWORK=off")
	t0 := time.Now()
	o, _ := cmd.CombinedOutput()
	out.log = fmt.Sprintf("$ go test -overlay ... -run TestVerifReplay (%s, %.1fs)\n%s", shortPath(pkgDir), time.Since(t0).Seconds(), string(o))
	m := regexp.MustCompile(`VERIF-REPLAY panicked=(true|false) leaves=\[(.*)\]`).FindStringSubmatch(string(o))
	if m == nil {
		if strings.Contains(string(o), "panic: test timed out") {
			out.ran = true
			out.panicked = false
			out.results = nil
			out.log += "\n(replay timed out: non-termination observed)"
			out.timedOut = true
		}
		return out
	}
	out.ran = true
	out.panicked = m[1] == "true"
	for _, q := range regexp.MustCompile(`"([^"]*)"`).FindAllStringSubmatch(m[2], -1) {
		out.results = append(out.results, q[1])
	}
	return out
}

// concreteClauseHolds evaluates a contract clause on concrete inputs/outputs with the solver.
// returns "true", "false" or "unknown".
func (r *Report) concreteClause(fx *fnExec, clause Expr, model map[string]string, ro replayOutcome, withResult bool, dir string) string {
	cx := r.v.newExec(fx.fn, fx.name+"$concrete", fx.ctr, fx.mode)
	cx.st = newState()
	cx.entry = cx.st
	cx.curR = tTrue
	cx.live = true
	cx.cellNames = map[string][]ssa.Value{}
	verdict := "unknown"
	func() {
		defer func() {
			if e := recover(); e != nil {
				if _, ok := e.(vcError); !ok {
					panic(e)
				}
			}
		}()
		for _, rs := range r.v.cs.RawSMT {
			cx.decls = append(cx.decls, rs)
		}
		env := &SpecEnv{fx: cx, cur: cx.st, old: cx.st, names: map[string]SV{}, bound: map[string]SV{}, callee: true}
		for pi, p := range fx.fn.Params {
			var ts []Term
			for _, il := range fx.inputLeaves {
				if il.Param != pi {
					continue
				}
				mv, ok := model[il.Const]
				if !ok {
					mv = "0"
					if il.Sort == SBool {
						mv = "false"
					}
				}
				if il.Sort == SBool {
					ts = append(ts, Term{mv, SBool})
				} else {
					v, _ := modelInt(mv)
					ts = append(ts, cx.litTo(v, il.Sort))
				}
			}
			i := 0
			sv := cx.build(p.Type(), func(l leaf) Term { t := ts[i]; i++; return t })
			env.names[p.Name()] = sv
			env.names[p.Name()+"0"] = sv
			env.names[fmt.Sprintf("arg%d", pi)] = sv
		}
		if withResult {
			res := fx.fn.Signature.Results()
			var rt types.Type
			if res.Len() == 1 {
				rt = res.At(0).Type()
			} else {
				rt = res
			}
			i := 0
			sv := cx.build(rt, func(l leaf) Term {
				s := ro.results[i]
				i++
				if l.sort == SBool {
					return Term{s, SBool}
				}
				v, _ := new(big.Int).SetString(s, 10)
				return cx.litTo(v, l.sort)
			})
			cx.bindResult(env, sv, fx.fn.Signature)
		}
		if fx.ctr != nil {
			for _, a := range fx.ctr.Uses {
				cx.useAxiom(a)
			}
		}
		t := cx.evalBool(clause, env)
		o := &Obligation{Name: fx.name + "/concrete", Prefix: len(cx.assumps), Goal: t, fx: cx}
		file := filepath.Join(dir, fmt.Sprintf("concrete_%x.smt2", hashStr(t.S)))
		os.WriteFile(file, []byte(o.smt(false)), 0o644)
		sr := runSolverSimple(file, 10)
		switch sr {
		case "unsat":
			verdict = "true"
		case "sat":
			verdict = "false"
		}
	}()
	return verdict
}

func runSolverSimple(file string, t int) string {
	for _, s := range solvers {
		r := runSolver(context.Background(), s, t, file)
		if r.verdict == "sat" || r.verdict == "unsat" {
			return r.verdict
		}
	}
	return "unknown"
}

// replayAll: try to confirm each refuted obligation on the real code.
func (r *Report) replayAll(dir string) {
	for _, vi := range r.viol {
		if vi.obl == nil || vi.obl.fx == nil || vi.obl.fx.fn == nil {
			continue
		}
		o := vi.obl
		fx := o.fx
		var model map[string]string
		if vi.known != nil && len(vi.known.Input) > 0 {
			model = vi.known.Input
		} else if o.Verdict == "sat" {
			model = parseModelValues(o.Model)
		} else {
			continue
		}
		ro := r.runValueReplay(fx, model, dir)
		var b strings.Builder
		fmt.Fprintf(&b, "model inputs: %v\n", model)
		if ro.driver != "" {
			fmt.Fprintf(&b, "--- driver ---\n%s\n", ro.driver)
		}
		fmt.Fprintf(&b, "--- run ---\n%s\n", ro.log)
		if ro.ran {
			fmt.Fprintf(&b, "real code: panicked=%v results=%v\n", ro.panicked, ro.results)
			confirmed := false
			why := ""
			switch {
			case ro.timedOut:
				confirmed = true
				why = "the real function did not terminate within 60 s on this input"
			case o.Kind == "site.panics_iff" || o.Kind == "panics_iff":
				if fx.ctr != nil && fx.ctr.PanicsIff != nil {
					p := r.concreteClause(fx, fx.ctr.PanicsIff.E, model, ro, false, dir)
					fmt.Fprintf(&b, "panics_iff condition on these inputs: %s\n", p)
					if (p == "true" && !ro.panicked) || (p == "false" && ro.panicked) {
						confirmed = true
						why = fmt.Sprintf("contract says panic <=> %s; condition is %s but real code panicked=%v", fx.ctr.PanicsIff.Src, p, ro.panicked)
					}
				}
			case o.Kind == "post":
				if !ro.panicked {
					// find the clause
					oname := regexp.MustCompile(`(\[[^\]]*\])+$`).ReplaceAllString(o.Name, "")
					for k, c := range fx.ctr.Ensures {
						if strings.HasSuffix(oname, fmt.Sprintf("/post%d%s", k+1, lbl(c))) {
							p := r.concreteClause(fx, c.E, model, ro, true, dir)
							fmt.Fprintf(&b, "postcondition %q on the real result: %s\n", c.Src, p)
							if p == "false" {
								confirmed = true
								why = "postcondition false on the real result"
							}
						}
					}
				}
			case o.Kind == "safety":
				if ro.panicked {
					confirmed = true
					why = "real code panicked on this input"
				}
			default:
				// internal obligation (invariant, callee precondition): look at the externally visible contract
				if fx.ctr != nil {
					if ro.panicked && fx.ctr.PanicsIff == nil && !fx.ctr.MayPanic {
						confirmed = true
						why = "real code panicked on this input"
					}
					if !ro.panicked {
						for _, c := range fx.ctr.Ensures {
							if !c.inMode(fx.mode) {
								continue
							}
							if r.concreteClause(fx, c.E, model, ro, true, dir) == "false" {
								confirmed = true
								why = "postcondition " + c.Src + " false on the real result"
							}
						}
					}
				}
			}
			if confirmed {
				vi.confirmed = true
				fmt.Fprintf(&b, "CONFIRMED on the real code: %s\n", why)
			} else {
				fmt.Fprintf(&b, "not confirmed on the real code with this input\n")
			}
		}
		vi.detail = b.String()
		if vi.known != nil && vi.confirmed {
			r.knownOut = append(r.knownOut, vi.known.Obligation+": "+vi.known.What)
		}
		vi.replay = r.writeReplayFile(vi, "")
	}
}
