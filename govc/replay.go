package main

import (
	"context"
	"encoding/json"
	"fmt"
	"go/types"
	"math/big"
	"os"
	"os/exec"
	"path/filepath"
	"regexp"
	"strings"
	"time"

	"golang.org/x/tools/go/ssa"
)

// Replay of counter-models on the real code.
//
// At function entry the generator records, for every parameter, the SMT terms whose model values are needed to
// rebuild a concrete input (scalars, struct limbs, the first replayK bytes of byte slices and strings, the byte
// slices reachable from a *BioSequence).  After a `sat` answer those terms are read back with (get-value), a Go
// test that calls the REAL function is generated and run through `go test -overlay`, and the violated clause is
// evaluated on the concrete inputs/outputs by the solver.

const replayK = 24

type inputLeaf struct {
	Const string
	Param int
	Sort  string
	Typ   types.Type
}

type replayBytes struct {
	arr, off, ln string
	elems        []string
}

type replayParam struct {
	kind   string // value | bytes | string | bioseq | unsupported
	typ    types.Type
	ref    string                  // bioseq: the pointer constant
	bytes  *replayBytes            // bytes
	fields map[string]*replayBytes // bioseq: sequence, qualities, feature
	str    string                  // string constant
	strLen string
	strAt  []string
}

// recordReplayTerms is called at function entry (state = entry state).
func (fx *fnExec) recordReplayTerms() {
	fx.replayParams = nil
	add := func(t string) string {
		fx.replayTerms = append(fx.replayTerms, t)
		return t
	}
	mkBytes := func(sl Sl) *replayBytes {
		if fx.mode != "int" {
			return nil
		}
		h := fx.heap(fx.st, "E.byte", arrSort(SInt, arrSort(SInt, SInt)))
		rb := &replayBytes{arr: add(sl.Arr.S), off: add(sl.Off.S), ln: add(sl.Len.S)}
		for i := 0; i < replayK; i++ {
			rb.elems = append(rb.elems, add(fmt.Sprintf("(select (select %s %s) %s)", h.S, sl.Arr.S, fx.eIdx(sl.Off, intLit64(int64(i))).S)))
		}
		return rb
	}
	for _, p := range fx.fn.Params {
		rp := &replayParam{kind: "unsupported", typ: p.Type()}
		v := fx.paramEntry[p.Name()]
		switch x := v.(type) {
		case Sc:
			switch {
			case x.T.So == SStr:
				rp.kind = "string"
				rp.str = x.T.S
				rp.strLen = add(fmt.Sprintf("(slen %s)", x.T.S))
				for i := 0; i < replayK; i++ {
					rp.strAt = append(rp.strAt, add(fmt.Sprintf("(sat %s %d)", x.T.S, i)))
				}
			case isBioSeqPtr(p.Type()):
				rp.kind = "bioseq"
				rp.ref = x.T.S
				rp.fields = map[string]*replayBytes{}
				if fx.mode == "int" {
					pt := p.Type().Underlying().(*types.Pointer).Elem()
					st := pt.Underlying().(*types.Struct)
					for i := 0; i < st.NumFields(); i++ {
						f := st.Field(i)
						if f.Name() != "sequence" && f.Name() != "qualities" && f.Name() != "feature" {
							continue
						}
						ad := Ad{Heap: "F." + typeKey(pt), Idx: []Term{x.T}, Path: []pathEl{{Field: i, Name: f.Name()}}, Typ: f.Type(), rootTyps: []types.Type{pt, f.Type()}}
						sv := fx.loadIn(fx.st, ad, false)
						if sl, ok := sv.(Sl); ok {
							rp.fields[f.Name()] = mkBytes(sl)
						}
					}
				}
			default:
				if _, ok := intInfoOf(p.Type()); ok || x.T.So == SBool {
					rp.kind = "value"
				}
			}
		case St:
			rp.kind = "value"
		case Sl:
			if eb, ok := x.Elem.Underlying().(*types.Basic); ok && eb.Kind() == types.Uint8 {
				rp.kind = "bytes"
				rp.bytes = mkBytes(x)
			}
		}
		fx.replayParams = append(fx.replayParams, rp)
	}
}

func isBioSeqPtr(t types.Type) bool {
	pt, ok := t.Underlying().(*types.Pointer)
	if !ok {
		return false
	}
	n, ok := pt.Elem().(*types.Named)
	return ok && n.Obj().Name() == "BioSequence" && n.Obj().Pkg() != nil && n.Obj().Pkg().Name() == "obiseq"
}

// parseGetValue reads the (get-value ...) answer positionally: the k-th pair belongs to the k-th requested term.
func parseGetValue(out string, terms []string) map[string]string {
	m := map[string]string{}
	i := strings.Index(out, "((")
	if i < 0 {
		return m
	}
	txt := out[i:]
	depth := 0
	end := -1
	for k := 0; k < len(txt); k++ {
		if txt[k] == '(' {
			depth++
		} else if txt[k] == ')' {
			depth--
			if depth == 0 {
				end = k + 1
				break
			}
		}
	}
	if end < 0 {
		return m
	}
	n, err := parseSx(txt[:end])
	if err != nil || n.list == nil {
		return m
	}
	for k, pair := range n.list {
		if k >= len(terms) || len(pair.list) != 2 {
			break
		}
		m[terms[k]] = pair.list[1].String()
	}
	return m
}

func modelInt(s string) (*big.Int, bool) {
	s = strings.TrimSpace(s)
	if strings.HasPrefix(s, "(- ") {
		v, ok := new(big.Int).SetString(strings.TrimSpace(strings.TrimSuffix(strings.TrimPrefix(s, "(- "), ")")), 10)
		if ok {
			v.Neg(v)
		}
		return v, ok
	}
	if strings.HasPrefix(s, "#x") {
		return new(big.Int).SetString(s[2:], 16)
	}
	if strings.HasPrefix(s, "#b") {
		return new(big.Int).SetString(s[2:], 2)
	}
	if strings.HasPrefix(s, "(_ bv") {
		f := strings.Fields(strings.TrimPrefix(s, "(_ bv"))
		return new(big.Int).SetString(f[0], 10)
	}
	return new(big.Int).SetString(s, 10)
}

func goLiteral(t types.Type, vals []*big.Int, bools []bool, pos *int, qual types.Qualifier) (string, bool) {
	switch u := t.Underlying().(type) {
	case *types.Basic:
		i := *pos
		*pos = i + 1
		if u.Info()&types.IsBoolean != 0 {
			return fmt.Sprintf("%v", bools[i]), true
		}
		if u.Info()&types.IsInteger != 0 {
			v := new(big.Int).Set(vals[i])
			if ii, ok := intInfoOf(t); ok && ii.signed && v.Cmp(pow2(ii.w-1)) >= 0 {
				v.Sub(v, pow2(ii.w))
			}
			return fmt.Sprintf("%s(%s)", types.TypeString(t, qual), v.String()), true
		}
		return "", false
	case *types.Struct:
		var fs []string
		for k := 0; k < u.NumFields(); k++ {
			e, ok := goLiteral(u.Field(k).Type(), vals, bools, pos, qual)
			if !ok {
				return "", false
			}
			fs = append(fs, u.Field(k).Name()+": "+e)
		}
		return types.TypeString(t, qual) + "{" + strings.Join(fs, ", ") + "}", true
	}
	return "", false
}

func leafExprs(t types.Type, base string) ([]string, bool) {
	switch u := t.Underlying().(type) {
	case *types.Basic:
		if u.Info()&(types.IsInteger|types.IsBoolean) != 0 {
			return []string{base}, true
		}
		return nil, false
	case *types.Struct:
		var r []string
		for k := 0; k < u.NumFields(); k++ {
			es, ok := leafExprs(u.Field(k).Type(), base+"."+u.Field(k).Name())
			if !ok {
				return nil, false
			}
			r = append(r, es...)
		}
		return r, true
	}
	return nil, false
}

type replayOutcome struct {
	ran      bool
	panicked bool
	results  []string
	hasRes   bool
	log      string
	driver   string
	timedOut bool
}

func bytesLiteral(rb *replayBytes, model map[string]string) (string, bool) {
	if rb == nil {
		return "", false
	}
	arr, ok1 := modelInt(model[rb.arr])
	ln, ok2 := modelInt(model[rb.ln])
	if !ok1 || !ok2 {
		return "", false
	}
	if arr.Sign() == 0 {
		return "nil", true
	}
	if !ln.IsInt64() || ln.Int64() > replayK || ln.Sign() < 0 {
		return "", false
	}
	var bs []string
	for i := 0; i < int(ln.Int64()); i++ {
		v, ok := modelInt(model[rb.elems[i]])
		if !ok {
			v = big.NewInt(0)
		}
		bs = append(bs, fmt.Sprint(new(big.Int).And(v, big.NewInt(255))))
	}
	return "[]byte{" + strings.Join(bs, ", ") + "}", true
}

const bioseqHelper = `package obiseq

import "sync"

// VerifMakeSeq exists only in replay builds (injected with go test -overlay).
func VerifMakeSeq(s, q, f []byte) *BioSequence {
	return &BioSequence{sequence: s, qualities: q, feature: f, annot_lock: &sync.Mutex{}}
}
`

func (r *Report) runReplay(fx *fnExec, model map[string]string, dir string) replayOutcome {
	fn := fx.fn
	var out replayOutcome
	if fn == nil || fn.Pkg == nil {
		return out
	}
	pkg := fn.Pkg.Pkg
	imports := map[string]bool{}
	qual := func(p *types.Package) string {
		if p == pkg {
			return ""
		}
		imports[p.Path()] = true
		return p.Name()
	}
	var setup []string
	var args []string
	refVars := map[string]string{}
	needHelper := false
	for pi, p := range fn.Params {
		rp := fx.replayParams[pi]
		switch rp.kind {
		case "value":
			var vals []*big.Int
			var bools []bool
			for _, il := range fx.inputLeaves {
				if il.Param != pi {
					continue
				}
				mv, ok := model[il.Const]
				if !ok {
					mv = "0"
					if il.Sort == SBool {
						mv = "false"
					}
				}
				if il.Sort == SBool {
					bools = append(bools, mv == "true")
					vals = append(vals, nil)
				} else {
					v, ok := modelInt(mv)
					if !ok {
						out.log = "cannot read model value " + mv + " for " + il.Const
						return out
					}
					vals = append(vals, v)
					bools = append(bools, false)
				}
			}
			pos := 0
			e, ok := goLiteral(p.Type(), vals, bools, &pos, qual)
			if !ok {
				out.log = "replay driver does not support parameter type " + p.Type().String()
				return out
			}
			args = append(args, e)
		case "bytes":
			e, ok := bytesLiteral(rp.bytes, model)
			if !ok {
				out.log = fmt.Sprintf("model slice for %s is longer than %d bytes or unreadable", p.Name(), replayK)
				return out
			}
			args = append(args, e)
		case "string":
			ln, ok := modelInt(model[rp.strLen])
			if !ok || !ln.IsInt64() || ln.Int64() > replayK || ln.Sign() < 0 {
				out.log = "model string too long or unreadable"
				return out
			}
			var sb strings.Builder
			sb.WriteString("\"")
			for i := 0; i < int(ln.Int64()); i++ {
				v, ok := modelInt(model[rp.strAt[i]])
				if !ok {
					v = big.NewInt(0)
				}
				fmt.Fprintf(&sb, "\\x%02x", v.Int64()&255)
			}
			sb.WriteString("\"")
			args = append(args, sb.String())
		case "bioseq":
			ref, ok := modelInt(model[rp.ref])
			if !ok {
				out.log = "cannot read model pointer for " + p.Name()
				return out
			}
			tname := types.TypeString(p.Type(), qual)
			if ref.Sign() == 0 {
				args = append(args, "("+tname+")(nil)")
				break
			}
			if v, seen := refVars[ref.String()]; seen {
				args = append(args, v)
				break
			}
			var parts []string
			for _, f := range []string{"sequence", "qualities", "feature"} {
				e, ok := bytesLiteral(rp.fields[f], model)
				if !ok {
					out.log = fmt.Sprintf("model %s.%s is longer than %d bytes or unreadable", p.Name(), f, replayK)
					return out
				}
				parts = append(parts, e)
			}
			needHelper = true
			q := qual(p.Type().Underlying().(*types.Pointer).Elem().(*types.Named).Obj().Pkg())
			ctor := "VerifMakeSeq"
			if q != "" {
				ctor = q + ".VerifMakeSeq"
			}
			vn := fmt.Sprintf("seq%d", pi)
			setup = append(setup, fmt.Sprintf("%s := %s(%s)", vn, ctor, strings.Join(parts, ", ")))
			refVars[ref.String()] = vn
			args = append(args, vn)
		default:
			out.log = "replay driver does not support parameter type " + p.Type().String()
			return out
		}
	}
	var call string
	name := fn.Name()
	if fn.Signature.Recv() != nil {
		call = fmt.Sprintf("(%s).%s(%s)", args[0], name, strings.Join(args[1:], ", "))
	} else {
		call = fmt.Sprintf("%s(%s)", name, strings.Join(args, ", "))
	}
	res := fn.Signature.Results()
	var lhs []string
	var prints []string
	resOK := true
	for i := 0; i < res.Len(); i++ {
		lhs = append(lhs, fmt.Sprintf("r%d", i))
		es, ok := leafExprs(res.At(i).Type(), fmt.Sprintf("r%d", i))
		if !ok {
			resOK = false
			continue
		}
		prints = append(prints, es...)
	}
	var body strings.Builder
	body.WriteString("\tpanicked := false\n\tvar leaves []string\n")
	for _, s := range setup {
		body.WriteString("\t" + s + "\n")
	}
	body.WriteString("\tfunc() {\n\t\tdefer func() {\n\t\t\tif e := recover(); e != nil {\n\t\t\t\tpanicked = true\n\t\t\t}\n\t\t}()\n")
	if len(lhs) > 0 {
		fmt.Fprintf(&body, "\t\t%s := %s\n", strings.Join(lhs, ", "), call)
		for i := range lhs {
			fmt.Fprintf(&body, "\t\t_ = r%d\n", i)
		}
		if resOK {
			for _, p := range prints {
				fmt.Fprintf(&body, "\t\tleaves = append(leaves, fmt.Sprint(%s))\n", p)
			}
		}
	} else {
		fmt.Fprintf(&body, "\t\t%s\n", call)
	}
	body.WriteString("\t}()\n\tfmt.Printf(\"VERIF-REPLAY panicked=%v leaves=%q\\n\", panicked, leaves)\n}\n")
	var src strings.Builder
	fmt.Fprintf(&src, "package %s\n\nimport (\n\t\"fmt\"\n\t\"testing\"\n", pkg.Name())
	for ip := range imports {
		fmt.Fprintf(&src, "\t%q\n", ip)
	}
	src.WriteString(")\n\nfunc TestVerifReplay(t *testing.T) {\n")
	src.WriteString(body.String())
	out.driver = src.String()
	out.hasRes = resOK && len(lhs) > 0

	pkgDir := filepath.Dir(r.v.fset.Position(fn.Pos()).Filename)
	drv := filepath.Join(dir, fmt.Sprintf("replay_%x_test.go", hashStr(fx.name+out.driver)))
	os.WriteFile(drv, []byte(out.driver), 0o644)
	repl := map[string]string{filepath.Join(pkgDir, "zz_verif_replay_test.go"): drv}
	if needHelper {
		hp := filepath.Join(dir, "zz_verif_helper_obiseq.go")
		os.WriteFile(hp, []byte(bioseqHelper), 0o644)
		repl[filepath.Join(r.v.repo, "pkg", "obiseq", "zz_verif_helper.go")] = hp
	}
	ob, _ := json.Marshal(map[string]map[string]string{"Replace": repl})
	ovf := drv + ".overlay.json"
	os.WriteFile(ovf, ob, 0o644)
	cmd := exec.Command("go", "test", "-overlay", ovf, "-v", "-vet=off", "-count=1", "-timeout", "60s", "-run", "^TestVerifReplay$", ".")
	cmd.Dir = pkgDir
	cmd.Env = append(os.Environ(), "GOFLAGS=-mod=mod", "GOPROXY=off", "GOSUMDB=off", "GOTOOLCHAIN=local", "GOWORK=off")
	t0 := time.Now()
	o, _ := cmd.CombinedOutput()
	txt := string(o)
	if len(txt) > 6000 {
		txt = txt[:3000] + "\n...\n" + txt[len(txt)-3000:]
	}
	out.log = fmt.Sprintf("$ go test -overlay ... -run TestVerifReplay (%s, %.1fs)\n%s", shortPath(pkgDir), time.Since(t0).Seconds(), txt)
	m := regexp.MustCompile(`VERIF-REPLAY panicked=(true|false) leaves=\[(.*)\]`).FindStringSubmatch(string(o))
	if m == nil {
		if strings.Contains(string(o), "panic: test timed out") {
			out.ran = true
			out.timedOut = true
			out.log += "\n(replay timed out: non-termination observed)"
		}
		return out
	}
	out.ran = true
	out.panicked = m[1] == "true"
	for _, q := range regexp.MustCompile(`"([^"]*)"`).FindAllStringSubmatch(m[2], -1) {
		out.results = append(out.results, q[1])
	}
	return out
}

// concreteClause evaluates a contract clause on the concrete inputs (model) and the real outputs.
// Returns "true", "false" or "unknown".
func (r *Report) concreteClause(fx *fnExec, clause Clause, model map[string]string, ro replayOutcome, withResult bool, dir string) string {
	cx := r.v.newExec(fx.fn, fx.name+"$concrete", fx.ctr, fx.mode)
	cx.st = newState()
	cx.entry = cx.st
	cx.curR = tTrue
	cx.live = true
	cx.cellNames = map[string][]ssa.Value{}
	// same names as the verification run: the model pins their values
	cx.decls = append([]string{}, fx.decls...)
	for k, v := range fx.declared {
		cx.declared[k] = v
	}
	for k, v := range fx.heapSorts {
		cx.heapSorts[k] = v
	}
	cx.strConsts = fx.strConsts
	cx.fltConsts = fx.fltConsts
	cx.nfresh = fx.nfresh + 100000
	verdict := "unknown"
	func() {
		defer func() {
			if e := recover(); e != nil {
				if _, ok := e.(vcError); !ok {
					panic(e)
				}
			}
		}()
		env := &SpecEnv{fx: cx, cur: cx.st, old: cx.st, names: map[string]SV{}, bound: map[string]SV{}, callee: true}
		for k, v := range fx.paramEntry {
			env.names[k] = v
			env.names[k+"0"] = v
		}
		for _, t := range fx.allGetValueTerms() {
			val, ok := model[t]
			if !ok || val == "" || strings.Contains(val, "lambda") || strings.Contains(val, "as-array") || strings.Contains(val, "as const") {
				continue
			}
			cx.assumps = append(cx.assumps, fmt.Sprintf("(assert (= %s %s))", t, val))
		}
		if withResult {
			res := fx.fn.Signature.Results()
			var rt types.Type
			if res.Len() == 1 {
				rt = res.At(0).Type()
			} else {
				rt = res
			}
			i := 0
			sv := cx.build(rt, func(l leaf) Term {
				s := ro.results[i]
				i++
				if l.sort == SBool {
					return Term{s, SBool}
				}
				v, _ := new(big.Int).SetString(s, 10)
				if w := bvWidth(l.sort); w > 0 {
					return bvLit(v, w)
				}
				return intLit(v)
			})
			cx.bindResult(env, sv, fx.fn.Signature)
		}
		if fx.ctr != nil {
			for _, a := range fx.ctr.Uses {
				cx.useAxiom(a)
			}
		}
		t := cx.evalClause(clause, env)
		canBeFalse := solveClosed(cx, tNot(t), dir)
		canBeTrue := solveClosed(cx, t, dir)
		switch {
		case canBeFalse == "unsat":
			verdict = "true"
		case canBeTrue == "unsat":
			verdict = "false"
		}
	}()
	return verdict
}

// solveClosed: is `t` satisfiable together with the pinned inputs?
func solveClosed(cx *fnExec, t Term, dir string) string {
	o := &Obligation{Name: cx.name, Prefix: len(cx.assumps), Goal: tNot(t), fx: cx}
	file := filepath.Join(dir, fmt.Sprintf("concrete_%x.smt2", hashStr(t.S+fmt.Sprint(len(cx.assumps)))))
	txt := o.smt(false)
	os.WriteFile(file, []byte(txt), 0o644)
	for _, s := range solvers {
		r := runSolver(context.Background(), s, 10, file)
		if r.verdict == "sat" || r.verdict == "unsat" {
			return r.verdict
		}
	}
	return "unknown"
}

var splitSuffixRe = regexp.MustCompile(`(@ret\d+)?(\[[^\]]*\])*$`)

// replayAll: try to confirm each refuted obligation on the real code.
func (r *Report) replayAll(dir string) {
	for _, vi := range r.viol {
		if vi.obl == nil || vi.obl.fx == nil || vi.obl.fx.fn == nil {
			continue
		}
		o := vi.obl
		fx := o.fx
		var model map[string]string
		if vi.known != nil && len(vi.known.Input) > 0 {
			model = vi.known.Input
		} else if o.Verdict == "sat" {
			model = parseGetValue(o.Model, fx.allGetValueTerms())
			if small := r.smallModel(o, dir); small != nil {
				model = small
			}
		} else {
			continue
		}
		if len(fx.replayParams) != len(fx.fn.Params) {
			continue
		}
		ro := r.runReplay(fx, model, dir)
		var b strings.Builder
		fmt.Fprintf(&b, "model inputs:\n")
		for _, t := range fx.allGetValueTerms() {
			if v, ok := model[t]; ok && len(t) < 60 {
				fmt.Fprintf(&b, "  %s = %s\n", t, v)
			}
		}
		if ro.driver != "" {
			fmt.Fprintf(&b, "--- driver ---\n%s\n", ro.driver)
		}
		fmt.Fprintf(&b, "--- run ---\n%s\n", ro.log)
		if ro.ran {
			fmt.Fprintf(&b, "real code: panicked=%v results=%v\n", ro.panicked, ro.results)
			confirmed := false
			why := ""
			oname := splitSuffixRe.ReplaceAllString(o.Name, "")
			switch {
			case ro.timedOut:
				confirmed = true
				why = "the real function did not terminate within 60 s on this input"
			case o.Kind == "site.panics_iff" || o.Kind == "panics_iff":
				if fx.ctr != nil && fx.ctr.PanicsIff != nil {
					p := r.concreteClause(fx, *fx.ctr.PanicsIff, model, ro, false, dir)
					fmt.Fprintf(&b, "panics_iff condition on these inputs: %s\n", p)
					if (p == "true" && !ro.panicked) || (p == "false" && ro.panicked) {
						confirmed = true
						why = fmt.Sprintf("contract says panic <=> %s; condition is %s but real code panicked=%v", fx.ctr.PanicsIff.Src, p, ro.panicked)
					}
				}
			case o.Kind == "post":
				if !ro.panicked && ro.hasRes {
					for k, c := range fx.ctr.Ensures {
						if strings.HasSuffix(oname, fmt.Sprintf("/post%d%s", k+1, lbl(c))) {
							p := r.concreteClause(fx, c, model, ro, true, dir)
							fmt.Fprintf(&b, "postcondition %q on the real result: %s\n", c.Src, p)
							if p == "false" {
								confirmed = true
								why = "postcondition false on the real result"
							}
						}
					}
				}
			case o.Kind == "safety":
				if ro.panicked {
					confirmed = true
					why = "real code panicked on this input"
				}
			default:
				if fx.ctr != nil {
					if ro.panicked && fx.ctr.PanicsIff == nil && !fx.ctr.MayPanic {
						confirmed = true
						why = "real code panicked on this input"
					}
					if !ro.panicked && ro.hasRes {
						for _, c := range fx.ctr.Ensures {
							if !c.inMode(fx.mode) {
								continue
							}
							if r.concreteClause(fx, c, model, ro, true, dir) == "false" {
								confirmed = true
								why = "postcondition " + c.Src + " false on the real result"
							}
						}
					}
				}
			}
			if confirmed {
				vi.confirmed = true
				fmt.Fprintf(&b, "CONFIRMED on the real code: %s\n", why)
			} else {
				fmt.Fprintf(&b, "not confirmed on the real code with this input\n")
			}
		}
		vi.detail = b.String()
		if vi.known != nil && vi.confirmed {
			r.knownOut = append(r.knownOut, vi.known.Obligation+": "+vi.known.What)
		}
		vi.replay = r.writeReplayFile(vi, "")
	}
}

func (fx *fnExec) allGetValueTerms() []string {
	return append(append([]string{}, fx.inputConsts...), fx.replayTerms...)
}

// smallModel asks again for a counter-model whose slices and strings are short enough to be rebuilt (and whose
// bytes are bytes); nil when there is none within the bound.
func (r *Report) smallModel(o *Obligation, dir string) map[string]string {
	fx := o.fx
	var lens, elems []string
	for _, rp := range fx.replayParams {
		var rbs []*replayBytes
		if rp.bytes != nil {
			rbs = append(rbs, rp.bytes)
		}
		for _, k := range []string{"sequence", "qualities", "feature"} {
			if rb := rp.fields[k]; rb != nil {
				rbs = append(rbs, rb)
			}
		}
		for _, rb := range rbs {
			lens = append(lens, rb.ln)
			elems = append(elems, rb.elems...)
		}
		if rp.kind == "string" {
			lens = append(lens, rp.strLen)
			elems = append(elems, rp.strAt...)
		}
	}
	if len(lens) == 0 {
		return nil
	}
	for _, k := range []int{4, 10, replayK} {
		var b strings.Builder
		base := o.smt(false)
		base = strings.Replace(base, "(check-sat)\n", "", 1)
		b.WriteString(base)
		for _, l := range lens {
			fmt.Fprintf(&b, "(assert (<= %s %d))\n", l, k)
		}
		for _, e := range elems {
			fmt.Fprintf(&b, "(assert (and (<= 0 %s) (< %s 256)))\n", e, e)
		}
		b.WriteString("(check-sat)\n")
		ts := fx.allGetValueTerms()
		b.WriteString("(get-value (" + strings.Join(ts, " ") + "))\n")
		file := filepath.Join(dir, fmt.Sprintf("small_%x_%d.smt2", hashStr(o.Name), k))
		os.WriteFile(file, []byte(b.String()), 0o644)
		for _, s := range solvers[:2] {
			res := runSolver(context.Background(), s, 8, file)
			if res.verdict == "sat" {
				return parseGetValue(res.out, ts)
			}
			if res.verdict == "unsat" {
				break
			}
		}
	}
	return nil
}
