package main

// Tolerance to the renaming of local variables, parameters and captured variables.
//
// Contracts live outside the function bodies and name locals (`loop 1 invariant i <= n`, `on store last: ...`).  A
// behaviour-preserving rename of such a local would make the clause impossible to bind - an alarm on code where the
// property holds.  /verif/locals.lock records, for every function under contract, the table of its named variables
// (kind, name, type, in source order) as it was when the lock was last updated.  When a name listed there no longer
// exists in the function and a name that did not exist then has appeared with the same kind and type(s), the contract's
// name is bound to the new variable.  Nothing is assumed by that: every obligation is still generated from the
// current code and has to be discharged; a wrong guess fails obligations exactly as the missing name would have.
// A rebinding is reported on stdout (`REBOUND ...`) and in the evidence.

import (
	"encoding/json"
	"fmt"
	"os"
	"path/filepath"
	"sort"
	"strings"

	"golang.org/x/tools/go/ssa"
)

type localEnt struct {
	Kind string `json:"kind"`
	Name string `json:"name"`
	Type string `json:"type"`
}

func localTable(fn *ssa.Function) []localEnt {
	var t []localEnt
	ts := func(s string) string { return strings.ReplaceAll(s, modPrefix, "") }
	for _, p := range fn.Params {
		t = append(t, localEnt{"param", p.Name(), ts(p.Type().String())})
	}
	for _, f := range fn.FreeVars {
		t = append(t, localEnt{"free", f.Name(), ts(f.Type().String())})
	}
	type al struct {
		a   *ssa.Alloc
		ord int
	}
	var as []al
	n := 0
	for _, b := range fn.Blocks {
		for _, in := range b.Instrs {
			if a, ok := in.(*ssa.Alloc); ok && a.Comment != "" && !synthLocal(a.Comment) {
				as = append(as, al{a, n})
				n++
			}
		}
	}
	sort.SliceStable(as, func(i, j int) bool {
		if as[i].a.Pos() != as[j].a.Pos() {
			return as[i].a.Pos() < as[j].a.Pos()
		}
		return as[i].ord < as[j].ord
	})
	isParam := map[string]bool{}
	for _, p := range fn.Params {
		isParam[p.Name()] = true
	}
	for _, x := range as {
		if isParam[x.a.Comment] {
			// the spill slot of a parameter: already listed
			continue
		}
		t = append(t, localEnt{"local", x.a.Comment, ts(x.a.Type().String())})
	}
	return t
}

// names the SSA builder invents (not source identifiers)
func synthLocal(n string) bool {
	switch n {
	case "rangeindex", "varargs", "complit", "slicelit", "makeslice", "new", "defer$stack", "makemap", "rangeiter":
		return true
	}
	return strings.Contains(n, "$") || strings.HasPrefix(n, "~")
}

func (v *Verifier) localsLockPath() string { return filepath.Join(v.verif, "locals.lock") }

func (v *Verifier) readLocalsLock() map[string][]localEnt {
	if v.localsLock != nil {
		return v.localsLock
	}
	m := map[string][]localEnt{}
	if b, err := os.ReadFile(v.localsLockPath()); err == nil {
		json.Unmarshal(b, &m)
	}
	v.localsLock = m
	return m
}

// writeLocalsLock records the tables of every function under contract that is loaded in this run.
func (v *Verifier) writeLocalsLock() {
	m := map[string][]localEnt{}
	if b, err := os.ReadFile(v.localsLockPath()); err == nil {
		json.Unmarshal(b, &m)
	}
	for n, c := range v.cs.Funcs {
		if c.Extern {
			continue
		}
		if f := v.funcs[n]; f != nil && len(f.Blocks) > 0 {
			m[n] = localTable(f)
		}
	}
	for n, l := range v.loopSigs {
		m[loopsLockPrefix+n] = l
	}
	// the functions each loaded package of the repository has (inline.go: helpers that are new since then)
	byPkg := map[string][]localEnt{}
	for k, f := range v.funcs {
		if f.Pkg == nil || f.Pkg.Pkg == nil || !strings.HasPrefix(f.Pkg.Pkg.Path(), "git.metabarcoding.org/") {
			continue
		}
		p := funcsLockPrefix + f.Pkg.Pkg.Path()
		byPkg[p] = append(byPkg[p], localEnt{Kind: "func", Name: k})
	}
	for p, l := range byPkg {
		sort.Slice(l, func(i, j int) bool { return l[i].Name < l[j].Name })
		m[p] = l
	}
	b, _ := json.MarshalIndent(m, "", " ")
	os.WriteFile(v.localsLockPath(), append(b, '\n'), 0o644)
}

// aliasFor: new name -> name the contracts use, for variables renamed since the lock was written.
func (v *Verifier) aliasFor(fn *ssa.Function) map[string]string {
	if fn == nil {
		return nil
	}
	if a, ok := v.aliasMemo[fn]; ok {
		return a
	}
	if v.aliasMemo == nil {
		v.aliasMemo = map[*ssa.Function]map[string]string{}
	}
	v.aliasMemo[fn] = nil
	old, ok := v.readLocalsLock()[fnKey(fn)]
	if !ok || len(fn.Blocks) == 0 {
		return nil
	}
	cur := localTable(fn)
	sig := func(t []localEnt) (order []string, sigs map[string]string) {
		sigs = map[string]string{}
		for _, e := range t {
			if _, seen := sigs[e.Name]; !seen {
				order = append(order, e.Name)
			}
			sigs[e.Name] += e.Kind + ":" + e.Type + ";"
		}
		return
	}
	oldOrder, oldSig := sig(old)
	curOrder, curSig := sig(cur)
	vanished := map[string][]string{} // signature -> names, in order
	appeared := map[string][]string{}
	for _, n := range oldOrder {
		if _, still := curSig[n]; !still {
			vanished[oldSig[n]] = append(vanished[oldSig[n]], n)
		}
	}
	for _, n := range curOrder {
		if _, was := oldSig[n]; !was {
			appeared[curSig[n]] = append(appeared[curSig[n]], n)
		}
	}
	var alias map[string]string
	for s, vs := range vanished {
		as := appeared[s]
		if len(as) != len(vs) {
			continue
		}
		for i := range vs {
			if alias == nil {
				alias = map[string]string{}
			}
			alias[as[i]] = vs[i]
		}
	}
	if alias != nil {
		var ks []string
		for k := range alias {
			ks = append(ks, k)
		}
		sort.Strings(ks)
		for _, k := range ks {
			msg := fmt.Sprintf("%s: the contracts' name %q is bound to the variable now called %q (renamed since locals.lock was written; same kind and type)", fnKey(fn), alias[k], k)
			v.rebound = append(v.rebound, msg)
		}
	}
	v.aliasMemo[fn] = alias
	return alias
}

// contractName: the name the contracts use for the variable called n in fn.
func (v *Verifier) contractName(fn *ssa.Function, n string) string {
	if a := v.aliasFor(fn); a != nil {
		if o, ok := a[n]; ok {
			return o
		}
	}
	return n
}

// ---- loops that changed place
//
// Contracts name loops by their ordinal in source order (`loop 2 invariant ...`).  An edit that swaps two branches,
// each holding a loop, or adds a loop in front of another, renumbers them.  locals.lock keeps a signature per loop of
// every function under contract (the named variables stored to and the functions called inside it, logging excluded).
// When the loops of the current function do not carry, ordinal by ordinal, the recorded signatures, the loops whose
// signature matches exactly one recorded loop take that loop's ordinal.  As with renamed variables nothing is
// assumed: the invariants still have to hold on the loop they end up attached to.

const loopsLockPrefix = "$loops:"

func (fx *fnExec) loopSig(li *loopInfo) string {
	set := map[string]bool{}
	for b := range li.blocks {
		for _, in := range b.Instrs {
			switch x := in.(type) {
			case *ssa.Store:
				if a, ok := x.Addr.(*ssa.Alloc); ok && a.Comment != "" && !synthLocal(a.Comment) {
					set["s:"+fx.v.contractName(fx.fn, a.Comment)] = true
				}
			case *ssa.Call:
				n := calleeName(&x.Call)
				if _, isB := x.Call.Value.(*ssa.Builtin); isB || fx.v.isNoEffect(n) || strings.HasPrefix(n, "dynamic:") {
					continue
				}
				set["c:"+n] = true
			}
		}
	}
	return strings.Join(sortedKeys(set), ",")
}

func (fx *fnExec) remapLoops(lis []*loopInfo) {
	if fx.ctr == nil || fx.inlining > 0 || len(lis) == 0 {
		return
	}
	key := fnKey(fx.fn)
	sort.Slice(lis, func(i, j int) bool { return lis[i].ordinal < lis[j].ordinal })
	var cur []localEnt
	for _, li := range lis {
		cur = append(cur, localEnt{Kind: "loop", Name: fmt.Sprint(li.ordinal), Type: fx.loopSig(li)})
	}
	if fx.v.loopSigs == nil {
		fx.v.loopSigs = map[string][]localEnt{}
	}
	fx.v.loopSigs[key] = cur
	old, ok := fx.v.readLocalsLock()[loopsLockPrefix+key]
	if !ok {
		return
	}
	same := len(old) == len(cur)
	if same {
		for i := range old {
			if old[i].Name != cur[i].Name || old[i].Type != cur[i].Type {
				same = false
			}
		}
	}
	if same {
		return
	}
	// how often each signature occurs, then and now
	oldN, curN := map[string]int{}, map[string]int{}
	for _, e := range old {
		oldN[e.Type]++
	}
	for _, e := range cur {
		curN[e.Type]++
	}
	oldOrd := map[string]int{}
	maxOld := 0
	for _, e := range old {
		var n int
		fmt.Sscan(e.Name, &n)
		oldOrd[e.Type] = n
		if n > maxOld {
			maxOld = n
		}
	}
	// loops that are where they were keep their ordinal; the others are matched by signature when that is unambiguous
	taken := map[int]bool{}
	assign := map[*loopInfo]int{}
	for i, li := range lis {
		if i < len(old) && old[i].Type == cur[i].Type && old[i].Name == cur[i].Name && len(old) == len(cur) {
			assign[li] = li.ordinal
			taken[li.ordinal] = true
		}
	}
	changed := false
	for i, li := range lis {
		if _, done := assign[li]; done {
			continue
		}
		s := cur[i].Type
		if oldN[s] == 1 && curN[s] == 1 && !taken[oldOrd[s]] {
			assign[li] = oldOrd[s]
			taken[oldOrd[s]] = true
			if oldOrd[s] != li.ordinal {
				changed = true
			}
		}
	}
	if !changed {
		return
	}
	next := maxOld
	for _, li := range lis {
		if n, ok := assign[li]; ok {
			if n != li.ordinal {
				msg := fmt.Sprintf("%s: the contracts' loop %d is the loop that is now number %d in source order (same stores and calls as recorded in locals.lock)", key, n, li.ordinal)
				dup := false
				for _, m := range fx.v.rebound {
					if m == msg {
						dup = true
					}
				}
				if !dup {
					fx.v.rebound = append(fx.v.rebound, msg)
				}
			}
			li.ordinal = n
			continue
		}
		// a loop that matches nothing recorded: numbered after the recorded ones, unless its own number is free
		if !taken[li.ordinal] {
			taken[li.ordinal] = true
			continue
		}
		next++
		for taken[next] {
			next++
		}
		li.ordinal = next
		taken[next] = true
	}
}

// ---- `for i := 0; i < len(s); i++` rewritten as `for i, x := range s`
//
// In an invariant of a range-over-slice loop the KEY variable declared by the range statement denotes the index of
// the element the next iteration will take (hidden counter + 1, i.e. the number of elements consumed) - exactly the
// value `i` has at the head of the equivalent three-clause loop.  The variable itself is only assigned inside the
// body, so without this reading an invariant written for the three-clause form cannot be evaluated at the head of
// the range form.  No existing clause can be affected: a variable declared by the range statement does not exist at
// the loop head, so naming it there was an error before.

func rangeKeyVar(li *loopInfo, ri *ssa.Alloc) *ssa.Alloc {
	for b := range li.blocks {
		for _, in := range b.Instrs {
			st, ok := in.(*ssa.Store)
			if !ok {
				continue
			}
			ld, isL := st.Val.(*ssa.UnOp)
			if !isL || ld.X != ssa.Value(ri) {
				continue
			}
			if a, isA := st.Addr.(*ssa.Alloc); isA && a.Comment != "" && !synthLocal(a.Comment) && li.blocks[a.Block()] {
				return a
			}
		}
	}
	return nil
}

func (fx *fnExec) bindRangeKey(env *SpecEnv, li *loopInfo) {
	ri := rangeIndexCell(li)
	if ri == nil {
		return
	}
	key := rangeKeyVar(li, ri)
	if key == nil {
		return
	}
	cur, ok := env.cur.cells[ri]
	if !ok {
		return
	}
	sc, isSc := cur.(Sc)
	if !isSc {
		return
	}
	v := Sc{fx.iAdd(sc.T, fx.iLit(1)), sc.Typ}
	env.names[key.Comment] = v
	if cn := fx.v.contractName(fx.fn, key.Comment); cn != key.Comment {
		env.names[cn] = v
	}
}
