package main

import (
	"fmt"
	"go/types"
	"math/big"
	"sort"
	"strings"

	"golang.org/x/tools/go/ssa"
)

// ---- symbolic values

type SV interface{}

// Sc: scalar SMT term with the Go type it came from (nil for pure spec values).
type Sc struct {
	T   Term
	Typ types.Type
}

// Lit: integer literal not yet committed to a sort.
type Lit struct{ V *big.Int }

// St: struct value.
type St struct {
	Typ types.Type
	F   []SV
}

// Sl: slice value.
type Sl struct {
	Arr, Off, Len, Cap Term
	Elem               types.Type
}

// Tu: tuple.
type Tu struct{ E []SV }

// Ad: address (lvalue).
type Ad struct {
	Cell     ssa.Value // non-nil: a local cell (Alloc, FreeVar, Global)
	Heap     string    // heap prefix when Cell == nil
	Idx      []Term    // heap indices: [ref] or [arr,pos]
	Path     []pathEl
	Typ      types.Type // type of the value stored at this address
	IsElem   bool
	rootTyps []types.Type // rootTyps[i]: type of the object reached after Path[:i]
}
type pathEl struct {
	Field int
	Name  string
	Idx   *Term // array index when non-nil
}

// FnV: a function value (closure or func) known statically.
type FnV struct {
	Fn       *ssa.Function
	Bindings []SV
	Ref      Term
}

// ---- type keys and leaves

func typeKey(t types.Type) string {
	switch x := t.(type) {
	case *types.Named:
		o := x.Obj()
		s := o.Name()
		if o.Pkg() != nil {
			s = o.Pkg().Name() + "." + s
		}
		if ta := x.TypeArgs(); ta != nil && ta.Len() > 0 {
			var as []string
			for i := 0; i < ta.Len(); i++ {
				as = append(as, typeKey(ta.At(i)))
			}
			s += "[" + strings.Join(as, ",") + "]"
		}
		return san(s)
	case *types.Alias:
		return typeKey(types.Unalias(x))
	case *types.Basic:
		switch x.Kind() {
		case types.Uint8:
			return "byte"
		case types.Int32:
			return "int32"
		}
		return x.Name()
	case *types.Pointer:
		return "p_" + typeKey(x.Elem())
	case *types.Slice:
		return "sl_" + typeKey(x.Elem())
	case *types.Array:
		return fmt.Sprintf("a%d_%s", x.Len(), typeKey(x.Elem()))
	case *types.Map:
		return "map_" + typeKey(x.Key()) + "_" + typeKey(x.Elem())
	case *types.Chan:
		return "chan_" + typeKey(x.Elem())
	case *types.Interface:
		if x.Empty() {
			return "any"
		}
		return "iface"
	case *types.Signature:
		return "func"
	case *types.Struct:
		var fs []string
		for i := 0; i < x.NumFields(); i++ {
			fs = append(fs, x.Field(i).Name()+"_"+typeKey(x.Field(i).Type()))
		}
		return "struct_" + san(strings.Join(fs, "_"))
	case *types.Tuple:
		return "tuple"
	}
	return san(t.String())
}

type leaf struct {
	suffix string
	sort   string
	typ    types.Type
}

func (fx *fnExec) isort() string {
	if fx.mode == "bv" {
		return bvSort(64)
	}
	return SInt
}

// scalarSort returns the SMT sort of a non-composite Go type.
func (fx *fnExec) scalarSort(t types.Type) (string, bool) {
	switch u := t.Underlying().(type) {
	case *types.Basic:
		if ii, ok := intInfoOf(u); ok {
			if fx.mode == "bv" {
				return bvSort(ii.w), true
			}
			return SInt, true
		}
		switch {
		case u.Info()&types.IsBoolean != 0:
			return SBool, true
		case u.Info()&types.IsString != 0:
			return SStr, true
		case u.Info()&types.IsFloat != 0:
			return SFlt, true
		case u.Kind() == types.UnsafePointer:
			return SInt, true
		case u.Kind() == types.UntypedNil:
			return SInt, true
		}
	case *types.Pointer, *types.Map, *types.Chan, *types.Signature, *types.Interface:
		return SInt, true
	}
	return "", false
}

func (fx *fnExec) leaves(t types.Type) []leaf {
	if so, ok := fx.scalarSort(t); ok {
		return []leaf{{"", so, t}}
	}
	switch u := t.Underlying().(type) {
	case *types.Slice:
		is := fx.isort()
		return []leaf{{"#arr", SInt, nil}, {"#off", is, nil}, {"#len", is, nil}, {"#cap", is, nil}}
	case *types.Struct:
		var r []leaf
		for i := 0; i < u.NumFields(); i++ {
			for _, l := range fx.leaves(u.Field(i).Type()) {
				r = append(r, leaf{"." + u.Field(i).Name() + l.suffix, l.sort, l.typ})
			}
		}
		return r
	case *types.Array:
		var r []leaf
		for _, l := range fx.leaves(u.Elem()) {
			r = append(r, leaf{"[]" + l.suffix, arrSort(fx.isort(), l.sort), nil})
		}
		return r
	case *types.Tuple:
		var r []leaf
		for i := 0; i < u.Len(); i++ {
			for _, l := range fx.leaves(u.At(i).Type()) {
				r = append(r, leaf{fmt.Sprintf(".%d", i) + l.suffix, l.sort, l.typ})
			}
		}
		return r
	}
	panic(vcErr("unsupported type %s", t))
}

// build constructs an SV of type t, calling f for each leaf in leaves() order.
func (fx *fnExec) build(t types.Type, f func(l leaf) Term) SV {
	ls := fx.leaves(t)
	i := 0
	return fx.buildFrom(t, "", func(suffix string) Term {
		l := ls[i]
		i++
		return f(l)
	})
}

func (fx *fnExec) buildFrom(t types.Type, pre string, next func(string) Term) SV {
	if _, ok := fx.scalarSort(t); ok {
		return Sc{next(pre), t}
	}
	switch u := t.Underlying().(type) {
	case *types.Slice:
		a := next(pre + "#arr")
		o := next(pre + "#off")
		l := next(pre + "#len")
		c := next(pre + "#cap")
		return Sl{a, o, l, c, u.Elem()}
	case *types.Struct:
		s := St{Typ: t}
		for i := 0; i < u.NumFields(); i++ {
			s.F = append(s.F, fx.buildFrom(u.Field(i).Type(), pre+"."+u.Field(i).Name(), next))
		}
		return s
	case *types.Array:
		ls := fx.leaves(u.Elem())
		if len(ls) == 1 {
			return Sc{next(pre + "[]"), t}
		}
		// array of composite: struct of arrays
		s := St{Typ: t}
		for range ls {
			s.F = append(s.F, Sc{next(pre + "[]"), nil})
		}
		return s
	case *types.Tuple:
		var tu Tu
		for i := 0; i < u.Len(); i++ {
			tu.E = append(tu.E, fx.buildFrom(u.At(i).Type(), fmt.Sprintf("%s.%d", pre, i), next))
		}
		return tu
	}
	panic(vcErr("unsupported type %s", t))
}

func flatten(v SV) []Term {
	switch x := v.(type) {
	case Sc:
		return []Term{x.T}
	case Sl:
		return []Term{x.Arr, x.Off, x.Len, x.Cap}
	case St:
		var r []Term
		for _, f := range x.F {
			r = append(r, flatten(f)...)
		}
		return r
	case Tu:
		var r []Term
		for _, f := range x.E {
			r = append(r, flatten(f)...)
		}
		return r
	case FnV:
		return []Term{x.Ref}
	case nil:
		return nil
	}
	panic(vcErr("flatten: unsupported value %T", v))
}

// rebuild makes a value shaped like v from a list of terms.
func rebuild(v SV, ts []Term) (SV, []Term) {
	switch x := v.(type) {
	case Sc:
		return Sc{ts[0], x.Typ}, ts[1:]
	case FnV:
		return Sc{ts[0], x.Fn.Type()}, ts[1:]
	case Sl:
		return Sl{ts[0], ts[1], ts[2], ts[3], x.Elem}, ts[4:]
	case St:
		n := St{Typ: x.Typ}
		for _, f := range x.F {
			var nf SV
			nf, ts = rebuild(f, ts)
			n.F = append(n.F, nf)
		}
		return n, ts
	case Tu:
		var n Tu
		for _, f := range x.E {
			var nf SV
			nf, ts = rebuild(f, ts)
			n.E = append(n.E, nf)
		}
		return n, ts
	}
	panic(vcErr("rebuild: unsupported value %T", v))
}

func svEqualSyntactic(a, b SV) bool {
	fa, fb := flatten(a), flatten(b)
	if len(fa) != len(fb) {
		return false
	}
	for i := range fa {
		if fa[i].S != fb[i].S {
			return false
		}
	}
	return true
}

// ---- state

type State struct {
	cells   map[ssa.Value]SV
	heaps   map[string]Term
	ghost   map[string]SV
	epoch   int
	pending map[string]int // heaps (or prefix*) havocked before their first touch -> version
	defers  []deferRec
}

func newState() *State {
	return &State{cells: map[ssa.Value]SV{}, heaps: map[string]Term{}, ghost: map[string]SV{}, pending: map[string]int{}}
}

func (s *State) clone() *State {
	n := &State{cells: make(map[ssa.Value]SV, len(s.cells)), heaps: make(map[string]Term, len(s.heaps)), ghost: make(map[string]SV, len(s.ghost)), epoch: s.epoch}
	for k, v := range s.cells {
		n.cells[k] = v
	}
	for k, v := range s.heaps {
		n.heaps[k] = v
	}
	for k, v := range s.ghost {
		n.ghost[k] = v
	}
	n.pending = make(map[string]int, len(s.pending))
	for k, v := range s.pending {
		n.pending[k] = v
	}
	n.defers = append([]deferRec{}, s.defers...)
	return n
}

// heap returns the current term of a heap, declaring its epoch-initial value lazily.
func (fx *fnExec) heap(s *State, name, sort string) Term {
	if t, ok := s.heaps[name]; ok {
		return t
	}
	ver := 0
	for k, v := range s.pending {
		if k == name || (strings.HasSuffix(k, "*") && strings.HasPrefix(name, strings.TrimSuffix(k, "*"))) {
			if v > ver {
				ver = v
			}
		}
	}
	cn := fmt.Sprintf("H%d$%s", s.epoch, san(name))
	if ver > 0 {
		cn = fmt.Sprintf("H%dv%d$%s", s.epoch, ver, san(name))
	}
	fresh := !fx.declared[cn]
	fx.declare(cn, sort)
	t := Term{cn, sort}
	s.heaps[name] = t
	fx.heapSorts[name] = sort
	if fresh && fx.refHeaps[name] && s.epoch == 0 && ver == 0 {
		// heap well-formedness at entry: every reference stored in the entry heap is nil or was alive at entry
		fx.closure(t, Term{"H0$$alive", arrSort(SInt, SBool)})
	}
	return t
}

// closure: all references held in heap h are nil or alive.
func (fx *fnExec) closure(h Term, alive Term) {
	fx.declare("H0$$alive", arrSort(SInt, SBool))
	_, es, _ := arrParts(h.So)
	if strings.HasPrefix(es, "(Array") {
		is, _, _ := arrParts(es)
		fx.assumps = append(fx.assumps, fmt.Sprintf("(assert (forall ((r$q Int) (i$q %s)) (! (=> (select %s r$q) (or (= (select (select %s r$q) i$q) 0) (select %s (select (select %s r$q) i$q)))) :pattern ((select (select %s r$q) i$q)))))", is, alive.S, h.S, alive.S, h.S, h.S))
		return
	}
	// only objects that are alive are constrained: the content of not-yet-allocated memory stays arbitrary
	fx.assumps = append(fx.assumps, fmt.Sprintf("(assert (forall ((r$q Int)) (! (=> (select %s r$q) (or (= (select %s r$q) 0) (select %s (select %s r$q)))) :pattern ((select %s r$q)))))", alive.S, h.S, alive.S, h.S, h.S))
}

func isRefLeaf(l leaf) bool {
	if strings.HasSuffix(l.suffix, "#arr") {
		return true
	}
	if l.typ != nil && l.sort == SInt {
		switch l.typ.Underlying().(type) {
		case *types.Pointer, *types.Map, *types.Chan:
			return true
		}
	}
	return false
}

func (fx *fnExec) heapSortFor(prefix string, l leaf) string {
	if strings.HasPrefix(prefix, "E.") {
		return arrSort(SInt, arrSort(fx.isort(), l.sort))
	}
	return arrSort(SInt, l.sort)
}

func sortedKeys[V any](m map[string]V) []string {
	var ks []string
	for k := range m {
		ks = append(ks, k)
	}
	sort.Strings(ks)
	return ks
}

// deferRec: a deferred call and the condition under which the defer statement was executed.
type deferRec struct {
	d     *ssa.Defer
	guard Term
}
