package main

import (
	"fmt"
	"go/constant"
	"go/token"
	"go/types"
	"math/big"
)

// coerceLit turns a Lit into a scalar of the wanted sort.
func (fx *fnExec) litTo(v *big.Int, so string) Term {
	if w := bvWidth(so); w > 0 {
		return bvLit(v, w)
	}
	return intLit(v)
}

// sc converts an SV into a scalar term; Lit becomes the mode's int sort unless hint given.
func (fx *fnExec) sc(v SV, hint string) Term {
	switch x := v.(type) {
	case Sc:
		return x.T
	case Lit:
		if hint == "" {
			hint = fx.isort()
		}
		return fx.litTo(x.V, hint)
	case FnV:
		return x.Ref
	}
	panic(vcErr("scalar expected, got %T", v))
}

func isNumeral(t Term) (*big.Int, bool) {
	v, ok := new(big.Int).SetString(t.S, 10)
	return v, ok
}

// wrapInt reduces a mathematical integer term to the range of ii (int mode).
func wrapInt(t Term, ii intInfo) Term {
	if v, ok := isNumeral(t); ok {
		m := pow2(ii.w)
		x := new(big.Int).Mod(v, m)
		if ii.signed && x.Cmp(pow2(ii.w-1)) >= 0 {
			x.Sub(x, m)
		}
		return intLit(x)
	}
	m := intLit(pow2(ii.w))
	if !ii.signed {
		return app(SInt, "mod", t, m)
	}
	h := intLit(pow2(ii.w - 1))
	return app(SInt, "-", app(SInt, "mod", app(SInt, "+", t, h), m), h)
}

func inRange(t Term, ii intInfo) Term {
	return tAnd(app(SBool, "<=", intLit(ii.min()), t), app(SBool, "<=", t, intLit(ii.max())))
}

// bitsConst applies a bitwise op between an Int-sorted term x in [0,2^w) and a constant c, bit by bit
// (only the set bits of c matter for or/xor/andnot; for and we use mod when c = 2^k-1).
func bitOpConst(op token.Token, x Term, c *big.Int, w int) (Term, bool) {
	if c.Sign() < 0 {
		return Term{}, false
	}
	switch op {
	case token.AND:
		// c == 2^k-1
		k := c.BitLen()
		if new(big.Int).Sub(pow2(k), big.NewInt(1)).Cmp(c) == 0 {
			if k == 0 {
				return intLit64(0), true
			}
			return app(SInt, "mod", x, intLit(pow2(k))), true
		}
		// c == 2^w-1 - (2^k-1): clear low k bits
		full := new(big.Int).Sub(pow2(w), big.NewInt(1))
		low := new(big.Int).Sub(full, c)
		kk := low.BitLen()
		if new(big.Int).Sub(pow2(kk), big.NewInt(1)).Cmp(low) == 0 {
			return app(SInt, "-", x, app(SInt, "mod", x, intLit(pow2(kk)))), true
		}
		// general: sum of selected bits
		if c.BitLen() <= 16 {
			var parts []Term
			for i := 0; i < c.BitLen(); i++ {
				if c.Bit(i) == 1 {
					bit := app(SInt, "mod", app(SInt, "div", x, intLit(pow2(i))), intLit64(2))
					parts = append(parts, app(SInt, "*", intLit(pow2(i)), bit))
				}
			}
			if len(parts) == 0 {
				return intLit64(0), true
			}
			if len(parts) == 1 {
				return parts[0], true
			}
			return app(SInt, "+", parts...), true
		}
	case token.OR, token.XOR, token.AND_NOT:
		if c.BitLen() > 16 {
			return Term{}, false
		}
		r := x
		for i := 0; i < c.BitLen(); i++ {
			if c.Bit(i) == 1 {
				bit := app(SInt, "mod", app(SInt, "div", x, intLit(pow2(i))), intLit64(2))
				p := intLit(pow2(i))
				switch op {
				case token.OR: // add 2^i if bit clear
					r = app(SInt, "+", r, app(SInt, "*", p, app(SInt, "-", intLit64(1), bit)))
				case token.XOR: // add if clear, subtract if set
					r = app(SInt, "+", r, app(SInt, "*", p, app(SInt, "-", intLit64(1), app(SInt, "*", intLit64(2), bit))))
				case token.AND_NOT:
					r = app(SInt, "-", r, app(SInt, "*", p, bit))
				}
			}
		}
		return r, true
	}
	return Term{}, false
}

// goBinop implements a Go binary operator on two scalar values of Go type typ (operand type).
// guard is the reach condition for obligations.
func (fx *fnExec) goBinop(op token.Token, a, b SV, opTyp types.Type, bTyp types.Type, where string) SV {
	// comparisons on composite values
	switch op {
	case token.EQL, token.NEQ:
		e := fx.svEq(a, b)
		if op == token.NEQ {
			e = tNot(e)
		}
		return Sc{e, types.Typ[types.Bool]}
	}
	if _, ok := opTyp.Underlying().(*types.Basic); !ok {
		panic(vcErr("binop %s on %s", op, opTyp))
	}
	bt := opTyp.Underlying().(*types.Basic)
	switch {
	case bt.Info()&types.IsBoolean != 0:
		x, y := fx.sc(a, SBool), fx.sc(b, SBool)
		switch op {
		case token.LAND, token.AND:
			return Sc{tAnd(x, y), opTyp}
		case token.LOR, token.OR:
			return Sc{tOr(x, y), opTyp}
		}
	case bt.Info()&types.IsString != 0:
		x, y := fx.sc(a, SStr), fx.sc(b, SStr)
		switch op {
		case token.ADD:
			fx.needStr()
			r := app(SStr, "str.cat", x, y)
			return Sc{r, opTyp}
		case token.LSS, token.GTR, token.LEQ, token.GEQ:
			fx.needStr()
			lt := app(SBool, "str.lt", x, y)
			gt := app(SBool, "str.lt", y, x)
			switch op {
			case token.LSS:
				return Sc{lt, types.Typ[types.Bool]}
			case token.GTR:
				return Sc{gt, types.Typ[types.Bool]}
			case token.LEQ:
				return Sc{tNot(gt), types.Typ[types.Bool]}
			default:
				return Sc{tNot(lt), types.Typ[types.Bool]}
			}
		}
	case bt.Info()&types.IsFloat != 0:
		fx.needFlt()
		x, y := fx.sc(a, SFlt), fx.sc(b, SFlt)
		switch op {
		case token.ADD:
			return Sc{app(SFlt, "f.add", x, y), opTyp}
		case token.SUB:
			return Sc{app(SFlt, "f.sub", x, y), opTyp}
		case token.MUL:
			return Sc{app(SFlt, "f.mul", x, y), opTyp}
		case token.QUO:
			return Sc{app(SFlt, "f.div", x, y), opTyp}
		case token.LSS:
			return Sc{app(SBool, "f.lt", x, y), types.Typ[types.Bool]}
		case token.GTR:
			return Sc{app(SBool, "f.lt", y, x), types.Typ[types.Bool]}
		case token.LEQ:
			return Sc{app(SBool, "f.le", x, y), types.Typ[types.Bool]}
		case token.GEQ:
			return Sc{app(SBool, "f.le", y, x), types.Typ[types.Bool]}
		}
	}
	ii, ok := intInfoOf(opTyp)
	if !ok {
		panic(vcErr("binop %s on type %s unsupported", op, opTyp))
	}
	boolT := types.Typ[types.Bool]
	if fx.mode == "bv" {
		so := bvSort(ii.w)
		x := fx.sc(a, so)
		var y Term
		if op == token.SHL || op == token.SHR {
			// shift count: own type
			bi, _ := intInfoOf(bTyp)
			if l, isLit := b.(Lit); isLit {
				if l.V.Cmp(big.NewInt(int64(ii.w))) >= 0 {
					if op == token.SHL || !ii.signed {
						return Sc{bvLit(big.NewInt(0), ii.w), opTyp}
					}
					y = bvLit(big.NewInt(int64(ii.w-1)), ii.w)
				} else {
					y = bvLit(l.V, ii.w)
				}
			} else {
				yb := fx.sc(b, bvSort(bi.w))
				if bi.signed {
					fx.oblige("safety:shift-negative", "safety", app(SBool, "bvsge", yb, bvLit(big.NewInt(0), bi.w)), where, "shift count >= 0")
				}
				switch {
				case bi.w == ii.w:
					y = yb
				case bi.w < ii.w:
					y = T(so, "((_ zero_extend %d) %s)", ii.w-bi.w, yb.S)
				default:
					// saturate: if yb >= w then w else extract
					big_ := app(SBool, "bvuge", yb, bvLit(big.NewInt(int64(ii.w)), bi.w))
					y = tIte(big_, bvLit(big.NewInt(int64(ii.w)), ii.w), T(so, "((_ extract %d 0) %s)", ii.w-1, yb.S))
				}
			}
			switch op {
			case token.SHL:
				return Sc{app(so, "bvshl", x, y), opTyp}
			default:
				if ii.signed {
					return Sc{app(so, "bvashr", x, y), opTyp}
				}
				return Sc{app(so, "bvlshr", x, y), opTyp}
			}
		}
		y = fx.sc(b, so)
		switch op {
		case token.ADD:
			return Sc{app(so, "bvadd", x, y), opTyp}
		case token.SUB:
			return Sc{app(so, "bvsub", x, y), opTyp}
		case token.MUL:
			return Sc{app(so, "bvmul", x, y), opTyp}
		case token.QUO:
			fx.oblige("safety:div-zero", "safety", tNot(tEq(y, bvLit(big.NewInt(0), ii.w))), where, "divisor != 0")
			if ii.signed {
				return Sc{app(so, "bvsdiv", x, y), opTyp}
			}
			return Sc{app(so, "bvudiv", x, y), opTyp}
		case token.REM:
			fx.oblige("safety:div-zero", "safety", tNot(tEq(y, bvLit(big.NewInt(0), ii.w))), where, "divisor != 0")
			if ii.signed {
				return Sc{app(so, "bvsrem", x, y), opTyp}
			}
			return Sc{app(so, "bvurem", x, y), opTyp}
		case token.AND:
			return Sc{app(so, "bvand", x, y), opTyp}
		case token.OR:
			return Sc{app(so, "bvor", x, y), opTyp}
		case token.XOR:
			return Sc{app(so, "bvxor", x, y), opTyp}
		case token.AND_NOT:
			return Sc{app(so, "bvand", x, app(so, "bvnot", y)), opTyp}
		case token.LSS, token.LEQ, token.GTR, token.GEQ:
			p := "bvu"
			if ii.signed {
				p = "bvs"
			}
			o := map[token.Token]string{token.LSS: "lt", token.LEQ: "le", token.GTR: "gt", token.GEQ: "ge"}[op]
			return Sc{app(SBool, p+o, x, y), boolT}
		}
		panic(vcErr("bv binop %s unsupported", op))
	}
	// ---- int mode
	x, y := fx.sc(a, SInt), fx.sc(b, SInt)
	arith := func(r Term) SV {
		if ii.signed && fx.overflowChecks {
			fx.oblige("overflow", "overflow", inRange(r, ii), where, fmt.Sprintf("%s in %d-bit signed range", op, ii.w))
			return Sc{r, opTyp}
		}
		if ii.signed {
			// overflow obligations switched off: wrap-around semantics, through a named constant with the
			// in-range shortcut (the common case) spelled out for the solver
			w := fx.freshConst("wr", SInt)
			fx.assume(tEq(w, Term{"(ite " + inRange(r, ii).S + " " + r.S + " " + wrapInt(r, ii).S + ")", SInt}))
			return Sc{w, opTyp}
		}
		return Sc{wrapInt(r, ii), opTyp}
	}
	switch op {
	case token.ADD:
		return arith(app(SInt, "+", x, y))
	case token.SUB:
		return arith(app(SInt, "-", x, y))
	case token.MUL:
		return arith(app(SInt, "*", x, y))
	case token.QUO, token.REM:
		fx.oblige("safety:div-zero", "safety", tNot(tEq(y, intLit64(0))), where, "divisor != 0")
		fx.needTdiv()
		if !ii.signed {
			if op == token.QUO {
				return Sc{app(SInt, "div", x, y), opTyp}
			}
			return Sc{app(SInt, "mod", x, y), opTyp}
		}
		// truncated division with a symbolic divisor: name quotient and remainder and give the solver the linear
		// consequences it needs most (all of them theorems of q = trunc(x/y), r = x - y*q)
		if _, lit := isNumeral(y); !lit {
			q := fx.freshConst("quo", SInt)
			r := fx.freshConst("rem", SInt)
			zero := intLit64(0)
			ge := func(a, b Term) Term { return app(SBool, ">=", a, b) }
			lt := func(a, b Term) Term { return app(SBool, "<", a, b) }
			gt := func(a, b Term) Term { return app(SBool, ">", a, b) }
			fx.assume(tEq(q, app(SInt, "tdiv", x, y)))
			fx.assume(tEq(r, app(SInt, "trem", x, y)))
			fx.assume(tEq(x, app(SInt, "+", app(SInt, "*", y, q), r)))
			fx.assume(tImp(tAnd(ge(x, zero), gt(y, zero)), tAnd(ge(r, zero), lt(r, y), ge(q, zero), app(SBool, "<=", q, x),
				tImp(lt(x, y), tAnd(tEq(r, x), tEq(q, zero))),
				tImp(tAnd(ge(x, y), lt(x, app(SInt, "*", intLit64(2), y))), tAnd(tEq(r, app(SInt, "-", x, y)), tEq(q, intLit64(1)))),
				tEq(r, app(SInt, "mod", x, y)), tEq(q, app(SInt, "div", x, y)))))
			fx.assume(tImp(tAnd(lt(x, zero), gt(y, zero)), tAnd(app(SBool, "<=", r, zero), gt(r, app(SInt, "-", y)))))
			if op == token.QUO {
				return arith(q)
			}
			return Sc{r, opTyp}
		}
		if op == token.QUO {
			return arith(app(SInt, "tdiv", x, y))
		}
		return Sc{app(SInt, "trem", x, y), opTyp}
	case token.LSS:
		return Sc{app(SBool, "<", x, y), boolT}
	case token.LEQ:
		return Sc{app(SBool, "<=", x, y), boolT}
	case token.GTR:
		return Sc{app(SBool, ">", x, y), boolT}
	case token.GEQ:
		return Sc{app(SBool, ">=", x, y), boolT}
	case token.SHL, token.SHR:
		if bi, ok := intInfoOf(bTyp); ok && bi.signed {
			if _, isLit := b.(Lit); !isLit {
				fx.oblige("safety:shift-negative", "safety", app(SBool, ">=", y, intLit64(0)), where, "shift count >= 0")
			}
		}
		if c, ok := isNumeral(y); ok && c.IsInt64() && c.Int64() < 4096 {
			p := intLit(pow2(int(c.Int64())))
			if op == token.SHL {
				return Sc{wrapInt(app(SInt, "*", x, p), ii), opTyp}
			}
			return Sc{app(SInt, "div", x, p), opTyp} // floor division == arithmetic shift
		}
		fx.needPow2()
		p := app(SInt, "pow2", y)
		if op == token.SHL {
			return Sc{wrapInt(app(SInt, "*", x, p), ii), opTyp}
		}
		return Sc{app(SInt, "div", x, p), opTyp}
	case token.AND, token.OR, token.XOR, token.AND_NOT:
		if c, ok := isNumeral(y); ok && !ii.signed {
			if r, ok := bitOpConst(op, x, c, ii.w); ok {
				return Sc{r, opTyp}
			}
		}
		if c, ok := isNumeral(x); ok && !ii.signed && op != token.AND_NOT {
			if r, ok := bitOpConst(op, y, c, ii.w); ok {
				return Sc{r, opTyp}
			}
		}
		if c, ok := isNumeral(y); ok && ii.signed && c.Sign() >= 0 && op == token.AND {
			// x & (2^k-1) for signed x: mod is still right (two's complement low bits)
			k := c.BitLen()
			if new(big.Int).Sub(pow2(k), big.NewInt(1)).Cmp(c) == 0 {
				return Sc{app(SInt, "mod", x, intLit(pow2(k))), opTyp}
			}
		}
		name := map[token.Token]string{token.AND: "bit.and", token.OR: "bit.or", token.XOR: "bit.xor", token.AND_NOT: "bit.andnot"}[op]
		fx.needBitFuns()
		r := app(SInt, name, x, y)
		fx.assume(inRange(r, ii))
		if !ii.signed {
			switch op {
			case token.AND:
				fx.assume(tAnd(app(SBool, "<=", r, x), app(SBool, "<=", r, y)))
			case token.OR:
				fx.assume(tAnd(app(SBool, ">=", r, x), app(SBool, ">=", r, y), app(SBool, "<=", r, app(SInt, "+", x, y))))
			case token.AND_NOT:
				fx.assume(app(SBool, "<=", r, x))
			}
		}
		return Sc{r, opTyp}
	}
	panic(vcErr("int binop %s unsupported", op))
}

// svEq: structural equality of two values.
func (fx *fnExec) svEq(a, b SV) Term {
	switch x := a.(type) {
	case Lit:
		if y, ok := b.(Lit); ok {
			if x.V.Cmp(y.V) == 0 {
				return tTrue
			}
			return tFalse
		}
		yt := fx.sc(b, "")
		return tEq(fx.litTo(x.V, yt.So), yt)
	case Sc:
		if y, ok := b.(Lit); ok {
			return tEq(x.T, fx.litTo(y.V, x.T.So))
		}
		yt := fx.sc(b, x.T.So)
		if x.T.So != yt.So {
			panic(vcErr("equality between sorts %s and %s (%s, %s)", x.T.So, yt.So, x.T.S, yt.S))
		}
		return tEq(x.T, yt)
	case FnV:
		return tEq(x.Ref, fx.sc(b, SInt))
	case St:
		y, ok := b.(St)
		if !ok || len(x.F) != len(y.F) {
			panic(vcErr("struct equality shape mismatch"))
		}
		var cs []Term
		for i := range x.F {
			cs = append(cs, fx.svEq(x.F[i], y.F[i]))
		}
		return tAnd(cs...)
	case Tu:
		y, ok := b.(Tu)
		if !ok || len(x.E) != len(y.E) {
			panic(vcErr("tuple equality shape mismatch"))
		}
		var cs []Term
		for i := range x.E {
			cs = append(cs, fx.svEq(x.E[i], y.E[i]))
		}
		return tAnd(cs...)
	case Sl:
		switch y := b.(type) {
		case Sl:
			if y.Arr.S == "0" || x.Arr.S == "0" {
				// comparison with nil: a slice is nil iff it has no backing array
				return tEq(x.Arr, y.Arr)
			}
			return tAnd(tEq(x.Arr, y.Arr), tEq(x.Off, y.Off), tEq(x.Len, y.Len))
		case Sc: // comparison with nil
			return tEq(x.Arr, y.T)
		case Lit:
			return tEq(x.Arr, intLit(y.V))
		}
	}
	panic(vcErr("equality on %T / %T unsupported", a, b))
}

// constSV converts a Go constant to an SV of type t.
func (fx *fnExec) constSV(cv constant.Value, t types.Type) SV {
	if cv == nil {
		return fx.zero(t)
	}
	switch cv.Kind() {
	case constant.Bool:
		if constant.BoolVal(cv) {
			return Sc{tTrue, t}
		}
		return Sc{tFalse, t}
	case constant.Int:
		v, _ := new(big.Int).SetString(cv.ExactString(), 10)
		if bt, ok := t.Underlying().(*types.Basic); ok && bt.Info()&types.IsFloat != 0 {
			return Sc{fx.fltConst(cv.ExactString()), t}
		}
		so, _ := fx.scalarSort(t)
		return Sc{fx.litTo(v, so), t}
	case constant.String:
		return Sc{fx.strConst(constant.StringVal(cv)), t}
	case constant.Float:
		if ii, ok := intInfoOf(t); ok {
			_ = ii
			v, _ := constant.Int64Val(constant.ToInt(cv))
			so, _ := fx.scalarSort(t)
			return Sc{fx.litTo(big.NewInt(v), so), t}
		}
		return Sc{fx.fltConst(cv.ExactString()), t}
	}
	panic(vcErr("constant %s unsupported", cv))
}

// zero value of type t
func (fx *fnExec) zero(t types.Type) SV {
	return fx.build(t, func(l leaf) Term { return fx.zeroOfSort(l.sort) })
}

func (fx *fnExec) zeroOfSort(so string) Term {
	switch so {
	case SInt:
		return intLit64(0)
	case SBool:
		return tFalse
	case SStr:
		return fx.strConst("")
	case SFlt:
		return fx.fltConst("0")
	}
	if w := bvWidth(so); w > 0 {
		return bvLit(big.NewInt(0), w)
	}
	if i, e, ok := arrParts(so); ok {
		return T(so, "((as const (Array %s %s)) %s)", i, e, fx.zeroOfSort(e).S)
	}
	panic(vcErr("zero of sort %s", so))
}

// convert implements Go numeric conversions.
func (fx *fnExec) convert(v SV, from, to types.Type, where string) SV {
	fi, fok := intInfoOf(from)
	ti, tok := intInfoOf(to)
	if fok && tok {
		if l, ok := v.(Lit); ok {
			so, _ := fx.scalarSort(to)
			return Sc{fx.litTo(l.V, so), to}
		}
		x := fx.sc(v, "")
		if fx.mode == "bv" {
			switch {
			case ti.w == fi.w:
				return Sc{x, to}
			case ti.w < fi.w:
				return Sc{T(bvSort(ti.w), "((_ extract %d 0) %s)", ti.w-1, x.S), to}
			default:
				ext := "zero_extend"
				if fi.signed {
					ext = "sign_extend"
				}
				return Sc{T(bvSort(ti.w), "((_ %s %d) %s)", ext, ti.w-fi.w, x.S), to}
			}
		}
		// int mode: wrap only if source range does not fit
		if fi.min().Cmp(ti.min()) >= 0 && fi.max().Cmp(ti.max()) <= 0 {
			return Sc{x, to}
		}
		return Sc{wrapInt(x, ti), to}
	}
	fb, _ := from.Underlying().(*types.Basic)
	tb, _ := to.Underlying().(*types.Basic)
	isFloat := func(b *types.Basic) bool { return b != nil && b.Info()&types.IsFloat != 0 }
	if fok && isFloat(tb) {
		fx.needFlt()
		x := fx.sc(v, "")
		if fx.mode == "bv" {
			return Sc{fx.freshConst("i2f", SFlt), to}
		}
		return Sc{app(SFlt, "f.ofint", x), to}
	}
	if isFloat(fb) && tok {
		fx.needFlt()
		so, _ := fx.scalarSort(to)
		if fx.mode == "bv" {
			return Sc{fx.freshConst("f2i", so), to}
		}
		r := app(SInt, "f.toint", fx.sc(v, SFlt))
		return Sc{wrapInt(r, ti), to}
	}
	if isFloat(fb) && isFloat(tb) {
		return Sc{fx.sc(v, SFlt), to}
	}
	return nil
}
