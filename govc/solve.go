package main

import (
	"context"
	"fmt"
	"os"
	"os/exec"
	"path/filepath"
	"regexp"
	"strings"
	"sync"
	"time"
)

func (o *Obligation) smt(withModel bool) string {
	fx := o.fx
	var b strings.Builder
	b.WriteString("(set-option :produce-models true)\n(set-logic ALL)\n")
	for _, d := range fx.decls {
		b.WriteString(d)
		b.WriteString("\n")
	}
	for _, a := range fx.assumps[:o.Prefix] {
		b.WriteString(fx.stripMacroPatterns(a))
		b.WriteString("\n")
	}
	b.WriteString("(assert (not " + fx.stripMacroPatterns(o.Goal.S) + "))\n(check-sat)\n")
	if withModel {
		if ts := fx.allGetValueTerms(); len(ts) > 0 {
			b.WriteString("(get-value (" + strings.Join(ts, " ") + "))\n")
		}
	}
	return b.String()
}

var symRe = regexp.MustCompile(`[A-Za-z_$][A-Za-z0-9_$.!#@]*`)

var smtNoise = map[string]bool{"assert": true, "and": true, "or": true, "not": true, "ite": true, "select": true, "store": true, "forall": true, "exists": true,
	"let": true, "Int": true, "Bool": true, "Array": true, "distinct": true, "true": true, "false": true, "mod": true, "div": true, "abs": true, "as": true, "const": true,
	"pattern": true, "idx": true, "Str": true, "BitVec": true, "_": true}

func lineSyms(l string) []string {
	var out []string
	for _, m := range symRe.FindAllString(l, -1) {
		if smtNoise[m] || strings.HasSuffix(m, "$q") {
			continue
		}
		out = append(out, m)
	}
	return out
}

// smtSliced: the obligation with only the assumptions connected to the goal through shared symbols, followed for a
// bounded number of rounds.  Dropping assumptions can only make a proof harder, never unsound: an `unsat` answer on the
// sliced problem is an `unsat` answer on the full one (a `sat` answer means nothing and is ignored).
func (o *Obligation) smtSliced(rounds int) string {
	fx := o.fx
	goal := fx.stripMacroPatterns(o.Goal.S)
	rel := map[string]bool{}
	for _, sy := range lineSyms(goal) {
		rel[sy] = true
	}
	as := fx.assumps[:o.Prefix]
	syms := make([][]string, len(as))
	for i, a := range as {
		syms[i] = lineSyms(a)
	}
	keep := make([]bool, len(as))
	for r := 0; r < rounds; r++ {
		var add []string
		changed := false
		for i := range as {
			if keep[i] {
				continue
			}
			hit := false
			for _, sy := range syms[i] {
				if rel[sy] {
					hit = true
					break
				}
			}
			if len(syms[i]) == 0 {
				hit = true
			}
			if hit {
				keep[i] = true
				changed = true
				add = append(add, syms[i]...)
			}
		}
		for _, sy := range add {
			rel[sy] = true
		}
		if !changed {
			break
		}
	}
	var b strings.Builder
	b.WriteString("(set-logic ALL)\n")
	for _, d := range fx.decls {
		b.WriteString(d)
		b.WriteString("\n")
	}
	for i, a := range as {
		if keep[i] {
			b.WriteString(fx.stripMacroPatterns(a))
			b.WriteString("\n")
		}
	}
	b.WriteString("(assert (not " + goal + "))\n(check-sat)\n")
	return b.String()
}

type solverSpec struct {
	name string
	args func(timeoutS int, file string) []string
}

var solvers = []solverSpec{
	{"z3-5.1.0", func(t int, f string) []string {
		return []string{"z3-new", fmt.Sprintf("-T:%d", t), "smt.array.extensional=false", f}
	}},
	{"z3-4.8.12", func(t int, f string) []string {
		return []string{"/usr/bin/z3", fmt.Sprintf("-T:%d", t), "smt.array.extensional=false", f}
	}},
	{"cvc5-1.0", func(t int, f string) []string {
		return []string{"cvc5", fmt.Sprintf("--tlimit=%d", t*1000), "--produce-models", f}
	}},
}

type solveResult struct {
	verdict string // unsat, sat, unknown, timeout, error
	out     string
	solver  string
	secs    float64
}

func runSolver(ctx context.Context, s solverSpec, timeoutS int, file string) solveResult {
	args := s.args(timeoutS, file)
	cctx, cancel := context.WithTimeout(ctx, time.Duration(timeoutS+2)*time.Second)
	defer cancel()
	t0 := time.Now()
	cmd := exec.CommandContext(cctx, args[0], args[1:]...)
	out, _ := cmd.CombinedOutput()
	secs := time.Since(t0).Seconds()
	txt := string(out)
	first := ""
	for _, ln := range strings.Split(txt, "\n") {
		ln = strings.TrimSpace(ln)
		if ln == "" || strings.HasPrefix(ln, "WARNING") || strings.HasPrefix(ln, "(warning") {
			continue
		}
		first = ln
		break
	}
	r := solveResult{solver: s.name, out: txt, secs: secs}
	switch first {
	case "unsat", "sat", "unknown":
		r.verdict = first
	case "timeout":
		r.verdict = "timeout"
	default:
		if cctx.Err() != nil || strings.Contains(txt, "timeout") || strings.Contains(txt, "interrupted") {
			r.verdict = "timeout"
		} else {
			r.verdict = "error"
		}
	}
	return r
}

// discharge runs the portfolio on one obligation.
func discharge(o *Obligation, dir string, quickS, fullS int, agree bool) {
	if o.Preset == "fail" {
		o.Verdict = "unknown"
		o.Solver = "generator"
		return
	}
	if o.Verdict == "trivial" {
		o.Verdict = "unsat"
		o.Solver = "syntactic"
		return
	}
	file := filepath.Join(dir, san(o.Name)+".smt2")
	if len(file) > 240 {
		file = filepath.Join(dir, fmt.Sprintf("o%x.smt2", hashStr(o.Name)))
	}
	txt := o.smt(true)
	os.WriteFile(file, []byte(txt), 0o644)
	o.smtFile = file
	o.smtSize = len(txt)
	t0 := time.Now()
	defer func() { o.Time = time.Since(t0).Seconds() }()
	if o.Expect == "reach" {
		// vacuity probe: only a quick 'unsat' matters
		r := runSolver(context.Background(), solvers[0], 2, file)
		o.Verdict, o.Solver = r.verdict, r.solver
		return
	}
	// stage 1: z3-new alone, very short (most obligations are instant)
	r := runSolver(context.Background(), solvers[0], 1, file)
	if r.verdict == "unsat" || r.verdict == "sat" {
		if !(agree && r.verdict == "unsat" && o.Expect == "") {
			o.Verdict, o.Solver, o.Model = r.verdict, r.solver, r.out
			return
		}
	}
	// stage 1b: big contexts (hundreds of frame axioms) drown small goals; try the goal with only the assumptions
	// connected to it (2, then 4 rounds of symbol sharing).  Only `unsat` is taken from a sliced problem.
	if o.Expect == "" && len(txt) > 200000 {
		for _, rounds := range []int{2, 4} {
			sf := strings.TrimSuffix(file, ".smt2") + fmt.Sprintf(".slice%d.smt2", rounds)
			os.WriteFile(sf, []byte(o.smtSliced(rounds)), 0o644)
			rs := runSolver(context.Background(), solvers[0], 3, sf)
			if rs.verdict == "unsat" {
				o.Verdict, o.Solver = "unsat", rs.solver+fmt.Sprintf("(sliced:%d)", rounds)
				return
			}
		}
	}
	// stage 2: everyone in parallel, first definite answer wins
	ctx, cancel := context.WithCancel(context.Background())
	defer cancel()
	ch := make(chan solveResult, len(solvers))
	for _, s := range solvers {
		go func(s solverSpec) { ch <- runSolver(ctx, s, fullS, file) }(s)
	}
	var outs []string
	nUnsat := 0
	var firstUnsat solveResult
	for i := 0; i < len(solvers); i++ {
		rr := <-ch
		outs = append(outs, fmt.Sprintf("%s: %s (%.1fs)", rr.solver, rr.verdict, rr.secs))
		if rr.verdict == "sat" {
			o.Verdict, o.Solver, o.Model = rr.verdict, rr.solver, rr.out
			return
		}
		if rr.verdict == "unsat" {
			nUnsat++
			if nUnsat == 1 {
				firstUnsat = rr
			}
			if !agree || nUnsat >= 2 || o.Expect != "" {
				o.Verdict, o.Solver = "unsat", rr.solver
				if agree && nUnsat >= 2 {
					o.Solver = firstUnsat.solver + "+" + rr.solver
				}
				return
			}
		}
	}
	if nUnsat >= 1 {
		// thorough tier wanted two solvers; one is still a proof - record which
		o.Verdict, o.Solver = "unsat", firstUnsat.solver+"(single)"
		return
	}
	o.Verdict = "unknown"
	o.Model = strings.Join(outs, "; ")
	_ = quickS
}

func hashStr(s string) uint32 {
	var h uint32 = 2166136261
	for i := 0; i < len(s); i++ {
		h ^= uint32(s[i])
		h *= 16777619
	}
	return h
}

func dischargeAll(obls []*Obligation, dir string, quickS, fullS int, agree bool, par int) {
	var wg sync.WaitGroup
	sem := make(chan struct{}, par)
	for _, o := range obls {
		wg.Add(1)
		sem <- struct{}{}
		go func(o *Obligation) {
			defer wg.Done()
			defer func() { <-sem }()
			discharge(o, dir, quickS, fullS, agree)
		}(o)
	}
	wg.Wait()
}

// stripMacroPatterns removes explicit :pattern annotations that mention a define-fun'd (merged) heap: after macro
// expansion such a pattern contains ite and is rejected by the solvers; the solver then infers patterns itself.
func (fx *fnExec) stripMacroPatterns(a string) string {
	if len(fx.macros) == 0 || !strings.Contains(a, ":pattern") {
		return a
	}
	var out strings.Builder
	i := 0
	for i < len(a) {
		j := strings.Index(a[i:], "(! ")
		if j < 0 {
			out.WriteString(a[i:])
			break
		}
		j += i
		// find the matching close of this (! ... ) form
		depth := 0
		end := -1
		for k := j; k < len(a); k++ {
			if a[k] == '(' {
				depth++
			} else if a[k] == ')' {
				depth--
				if depth == 0 {
					end = k
					break
				}
			}
		}
		if end < 0 {
			out.WriteString(a[i:])
			break
		}
		form := a[j : end+1]
		pi := strings.LastIndex(form, ":pattern")
		usesMacro := false
		if pi >= 0 {
			for m := range fx.macros {
				if strings.Contains(form[pi:], m+" ") || strings.Contains(form[pi:], m+")") {
					usesMacro = true
					break
				}
			}
		}
		out.WriteString(a[i:j])
		if usesMacro {
			inner := strings.TrimSpace(form[3:pi])
			out.WriteString(fx.stripMacroPatterns(inner))
		} else {
			// keep the annotation, but still process nested forms inside the body
			out.WriteString("(! " + fx.stripMacroPatterns(form[3:pi]) + form[pi:])
		}
		i = end + 1
	}
	return out.String()
}
