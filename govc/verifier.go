package main

import (
	"fmt"
	"go/ast"
	"go/constant"
	"go/token"
	"go/types"
	"math/big"
	"os"
	"sort"
	"strings"

	"golang.org/x/tools/go/packages"
	"golang.org/x/tools/go/ssa"
	"golang.org/x/tools/go/ssa/ssautil"
)

type Verifier struct {
	repo     string
	verif    string
	cs       *Contracts
	prog     *ssa.Program
	fset     *token.FileSet
	funcs    map[string]*ssa.Function
	pkgs     []*packages.Package
	epoch    int
	tids     map[string]int
	noEff    map[string]bool
	modMemo  map[*ssa.Function]*modSet
	known    *KnownFile
	prop     string
	immut    map[*ssa.Global]bool
	sentMemo map[*ssa.Global]bool
	// renamed locals (rename.go)
	localsLock map[string][]localEnt
	aliasMemo  map[*ssa.Function]map[string]string
	rebound    []string
	loopSigs   map[string][]localEnt
}

func (v *Verifier) nextEpoch() int { v.epoch++; return v.epoch }
func (v *Verifier) typeID(key string) int {
	if id, ok := v.tids[key]; ok {
		return id
	}
	id := len(v.tids) + 1
	v.tids[key] = id
	return id
}

// functions without any effect on the modelled state (logging, formatting): results unconstrained
var noEffectPrefixes = []string{
	"github.com/sirupsen/logrus.Warn", "github.com/sirupsen/logrus.Info", "github.com/sirupsen/logrus.Debug", "github.com/sirupsen/logrus.Print",
	"github.com/sirupsen/logrus.Error", "github.com/sirupsen/logrus.Trace",
	"log.Print", "fmt.Sprint", "fmt.Errorf", "fmt.Print", "fmt.Fprint", "errors.New", "strings.", "strconv.", "bytes.Equal", "bytes.Compare", "bytes.Index", "bytes.Contains", "bytes.HasPrefix", "bytes.HasSuffix",
	"math.", "sync/atomic.", "unicode.", "unicode/utf8.", "time.", "os.Getenv", "runtime.", "sort.SearchInts", "slices.Contains", "slices.Index", "(*sync.Mutex).", "(*sync.RWMutex).", "(*sync.WaitGroup).",
	"(*sync.WaitGroup).Wait", "path.", "path/filepath.", "regexp.MustCompile", "(*regexp.Regexp).Match", "(*regexp.Regexp).Find", "hash/crc32.", "crypto/md5.",
	"(*github.com/schollz/progressbar/v3.ProgressBar).", "github.com/schollz/progressbar/v3.", "obiiter.RegisterAPipe", "obiiter.UnregisterPipe", "obiiter.WaitForLastPipe",
}

func (v *Verifier) isNoEffect(name string) bool {
	if v.noEff[name] {
		return true
	}
	for _, p := range noEffectPrefixes {
		if strings.HasPrefix(name, p) {
			return true
		}
	}
	return false
}

func loadVerifier(repo, verif string, patterns []string) (*Verifier, error) {
	v := &Verifier{repo: repo, verif: verif, tids: map[string]int{}, noEff: map[string]bool{}, modMemo: map[*ssa.Function]*modSet{}, immut: map[*ssa.Global]bool{}, sentMemo: map[*ssa.Global]bool{}}
	cs, err := loadAllContracts(verif, repo)
	if err != nil {
		return nil, err
	}
	v.cs = cs
	env := append(os.Environ(), "GOFLAGS=-mod=mod", "GOPROXY=off", "GOSUMDB=off", "GOTOOLCHAIN=local", "GOWORK=off")
	cfg := &packages.Config{Mode: packages.LoadAllSyntax, Dir: repo, BuildFlags: []string{"-tags=verif"}, Env: env}
	pkgs, err := packages.Load(cfg, patterns...)
	if err != nil {
		return nil, err
	}
	nerr := 0
	packages.Visit(pkgs, nil, func(p *packages.Package) {
		for _, e := range p.Errors {
			if strings.HasPrefix(p.PkgPath, "git.metabarcoding.org") {
				fmt.Fprintf(os.Stderr, "load error: %s: %v\n", p.PkgPath, e)
				nerr++
			}
		}
	})
	if nerr > 0 {
		return nil, fmt.Errorf("%d package load errors", nerr)
	}
	v.pkgs = pkgs
	prog, _ := ssautil.AllPackages(pkgs, ssa.NaiveForm|ssa.GlobalDebug|ssa.InstantiateGenerics)
	prog.Build()
	v.prog = prog
	v.fset = prog.Fset
	v.funcs = map[string]*ssa.Function{}
	for fn := range ssautil.AllFunctions(prog) {
		if fn.Pkg == nil && fn.Origin() == nil {
			continue
		}
		k := fnKey(fn)
		if _, dup := v.funcs[k]; dup {
			// prefer the one with a body
			if len(fn.Blocks) == 0 {
				continue
			}
		}
		v.funcs[k] = fn
	}
	return v, nil
}

func (v *Verifier) newExec(fn *ssa.Function, name string, ctr *FuncContract, mode string) *fnExec {
	fx := &fnExec{v: v, fn: fn, name: name, ctr: ctr, mode: mode, declared: map[string]bool{}, vals: map[ssa.Value]SV{}, heapSorts: map[string]string{},
		oblCount: map[string]int{}, sharedMut: map[ssa.Value]bool{}, strConsts: map[string]Term{}, fltConsts: map[string]Term{}, needs: map[string]bool{},
		usedAxioms: map[string]bool{}, unspecCallees: map[string]bool{}, externUsed: map[string]bool{}, lemmasUsed: map[string]bool{}, contractsUsed: map[string]bool{}, ghostTypes: map[string]string{},
		ranges: map[*ssa.Range]*rangeState{}, rangeNames: map[string]*rangeState{}, tablesUsed: map[string]bool{}, sliceTables: map[ssa.Value]*sliceTable{}, refHeaps: map[string]bool{}, macros: map[string]bool{}, inlinedHelpers: map[string]bool{}}
	fx.overflowChecks = true
	fx.caseIdx = -1
	fx.safetyChecks = true
	if ctr != nil {
		if ctr.Opts["overflow"] == "off" {
			fx.overflowChecks = false
		}
		if ctr.Opts["safety"] == "off" {
			fx.safetyChecks = false
		}
	}
	return fx
}

// ---- frame inference

func (v *Verifier) addrRootMods(fx *fnExec, addr ssa.Value, ms *modSet, local bool) {
	// walk to the root collecting the path suffix
	var suffix []string
	cur := addr
	for {
		switch x := cur.(type) {
		case *ssa.FieldAddr:
			st := x.X.Type().Underlying().(*types.Pointer).Elem().Underlying().(*types.Struct)
			suffix = append([]string{"." + st.Field(x.Field).Name()}, suffix...)
			cur = x.X
			continue
		case *ssa.IndexAddr:
			switch xt := x.X.Type().Underlying().(type) {
			case *types.Slice:
				ms.heaps["E."+typeKey(xt.Elem())+strings.Join(suffix, "")+"*"] = true
				return
			case *types.Pointer:
				if a, ok := x.X.(*ssa.Alloc); ok && isArrayBacking(a) {
					at := xt.Elem().Underlying().(*types.Array)
					ms.heaps["E."+typeKey(at.Elem())+strings.Join(suffix, "")+"*"] = true
					return
				}
				suffix = append([]string{"[]"}, suffix...)
				cur = x.X
				continue
			}
		}
		break
	}
	switch r := cur.(type) {
	case *ssa.Alloc:
		if isCellAlloc(r) && !isArrayBacking(r) {
			if local {
				ms.cells[r] = true
			}
			return
		}
		et := r.Type().(*types.Pointer).Elem()
		ms.heaps["F."+typeKey(et)+strings.Join(suffix, "")+"*"] = true
	case *ssa.FreeVar:
		if local {
			ms.cells[r] = true
		}
	case *ssa.Global:
		ms.cells[r] = true
	default:
		pt, ok := cur.Type().Underlying().(*types.Pointer)
		if !ok {
			ms.all = true
			return
		}
		ms.heaps["F."+typeKey(pt.Elem())+strings.Join(suffix, "")+"*"] = true
	}
}

func (v *Verifier) instrMods(fx *fnExec, in ssa.Instruction, ms *modSet, local bool, seen map[*ssa.Function]bool) {
	switch x := in.(type) {
	case *ssa.Store:
		v.addrRootMods(fx, x.Addr, ms, local)
	case *ssa.MapUpdate:
		m := x.Map.Type().Underlying().(*types.Map)
		ms.heaps["M."+typeKey(m.Key())+"."+typeKey(m.Elem())+"*"] = true
	case *ssa.Alloc:
		if !isCellAlloc(x) || isArrayBacking(x) {
			et := x.Type().(*types.Pointer).Elem()
			if at, ok := et.Underlying().(*types.Array); ok && isArrayBacking(x) {
				ms.heaps["E."+typeKey(at.Elem())+"*"] = true
			} else {
				ms.heaps["F."+typeKey(et)+"*"] = true
			}
			ms.heaps["$alive"] = true
		} else if local {
			// re-executed allocation: the cell is reset; handled dynamically
		}
	case *ssa.MakeSlice:
		ms.heaps["E."+typeKey(x.Type().Underlying().(*types.Slice).Elem())+"*"] = true
		ms.heaps["$alive"] = true
	case *ssa.MakeMap:
		m := x.Type().Underlying().(*types.Map)
		ms.heaps["M."+typeKey(m.Key())+"."+typeKey(m.Elem())+"*"] = true
		ms.heaps["$alive"] = true
	case *ssa.MakeClosure, *ssa.MakeChan:
		ms.heaps["$alive"] = true
	case *ssa.Convert:
		if _, ok := x.Type().Underlying().(*types.Slice); ok {
			ms.heaps["E.byte"] = true
			ms.heaps["$alive"] = true
		}
	case *ssa.Call:
		v.callMods(fx, &x.Call, ms, local, seen)
	case *ssa.Defer:
		v.callMods(fx, &x.Call, ms, local, seen)
	case *ssa.Go:
		if fx != nil && local {
			for c := range fx.sharedMut {
				ms.cells[c] = true
			}
		}
	case *ssa.Next:
		if fx != nil && local {
			if r, ok := x.Iter.(*ssa.Range); ok {
				if rs := fx.ranges[r]; rs != nil {
					ms.ghosts[rs.seenG] = true
					ms.ghosts[rs.seenG+"#n"] = true
				}
			}
		}
	}
}

func (v *Verifier) callMods(fx *fnExec, c *ssa.CallCommon, ms *modSet, local bool, seen map[*ssa.Function]bool) {
	name := calleeName(c)
	if b, ok := c.Value.(*ssa.Builtin); ok {
		switch b.Name() {
		case "append", "copy":
			if st, ok := c.Args[0].Type().Underlying().(*types.Slice); ok {
				ms.heaps["E."+typeKey(st.Elem())+"*"] = true
				ms.heaps["$alive"] = true
			}
		case "delete":
			m := c.Args[0].Type().Underlying().(*types.Map)
			ms.heaps["M."+typeKey(m.Key())+"."+typeKey(m.Elem())+"*"] = true
		}
		return
	}
	if fx != nil && local {
		for cl := range fx.sharedMut {
			ms.cells[cl] = true
		}
	}
	var callee *ssa.Function
	switch f := c.Value.(type) {
	case *ssa.Function:
		callee = f
	case *ssa.MakeClosure:
		callee = f.Fn.(*ssa.Function)
	}
	ctr := v.cs.Funcs[name]
	if ctr == nil && callee != nil && callee.Origin() != nil {
		ctr = v.cs.Funcs[fnKey(callee.Origin())]
	}
	if ctr != nil {
		for _, h := range ctr.Hooks {
			for _, a := range h.Assigns {
				if a.Kind == "assign" || a.Kind == "havoc" {
					// only package-level ghost state is shared between a callee and its callers
					if _, shared := v.cs.Ghosts[ghostRoot(a.LHS)]; shared {
						ms.ghosts[ghostRoot(a.LHS)] = true
					}
				}
			}
		}
		if ctr.Pure || ctr.Terminal != "" {
			return
		}
		if ctr.ModSet {
			for _, m := range ctr.Modifies {
				switch {
				case m == "all":
					ms.all = true
				case strings.HasPrefix(m, "ghost."):
					ms.ghosts[strings.TrimPrefix(m, "ghost.")] = true
				default:
					ms.heaps[m] = true
				}
			}
			return
		}
		if ctr.Extern {
			return
		}
	}
	if v.isNoEffect(name) {
		return
	}
	if callee != nil && len(callee.Blocks) > 0 {
		v.inferMods(callee, ms, seen)
		return
	}
	ms.all = true
	v.opaqueGhostMods(c, ms)
}

// opaqueGhostMods: a callee without body or contract that receives anything but plain data (a reader, a closure, an
// opaque object) may drive the modelled environment: the shared ghost variables (e.g. stream_fault) are unknown after it.
func (v *Verifier) opaqueGhostMods(c *ssa.CallCommon, ms *modSet) {
	plain := !c.IsInvoke()
	if _, isFn := c.Value.(*ssa.Function); !isFn && !c.IsInvoke() {
		plain = false // call through a function value
	}
	for _, a := range c.Args {
		if !plainData(a.Type(), 0) {
			plain = false
		}
	}
	if !plain {
		for g := range v.cs.Ghosts {
			ms.ghosts[g] = true
		}
	}
}

func (v *Verifier) inferMods(fn *ssa.Function, ms *modSet, seen map[*ssa.Function]bool) {
	if seen[fn] {
		return
	}
	seen[fn] = true
	for _, b := range fn.Blocks {
		for _, in := range b.Instrs {
			v.instrMods(nil, in, ms, false, seen)
		}
	}
	for _, af := range fn.AnonFuncs {
		_ = af
	}
}

func (fx *fnExec) loopMods(li *loopInfo) *modSet {
	ms := newModSet()
	var bs []*ssa.BasicBlock
	for b := range li.blocks {
		bs = append(bs, b)
	}
	sort.Slice(bs, func(i, j int) bool { return bs[i].Index < bs[j].Index })
	hasEvent := false
	for _, b := range bs {
		for _, in := range b.Instrs {
			fx.v.instrMods(fx, in, ms, true, map[*ssa.Function]bool{})
			if g, isGo := in.(*ssa.Go); isGo {
				// maps written by a function spawned inside the loop are unknown at the loop head
				fx.asyncMapMods(goCallee(g), ms, map[*ssa.Function]bool{})
			}
			switch in.(type) {
			case *ssa.Call, *ssa.Store, *ssa.Send, *ssa.Go, *ssa.MapUpdate, *ssa.Defer, *ssa.RunDefers, *ssa.UnOp:
				hasEvent = true
			}
		}
	}
	if hasEvent && fx.ctr != nil {
		for _, h := range fx.ctr.Hooks {
			for _, a := range h.Assigns {
				if a.Kind == "assign" || a.Kind == "havoc" {
					// the function's own ghost variables, updated by its hooks somewhere in the loop
					ms.ghosts[ghostRoot(a.LHS)] = true
				}
			}
		}
	}
	if li.spec != nil {
		for _, m := range li.spec.Modifies {
			if strings.HasPrefix(m, "ghost.") {
				ms.ghosts[strings.TrimPrefix(m, "ghost.")] = true
			} else {
				ms.heaps[m] = true
			}
		}
	}
	return ms
}

// globalInit: initial value of an immutable package-level table, when it can be read from the source.
func (v *Verifier) globalInit(fx *fnExec, g *ssa.Global) (SV, bool) {
	return v.tableInit(fx, g)
}

// tableInit reads the composite-literal initialiser of a package-level array of constants and returns it as an SMT
// array, after checking over the SSA of the whole package that nothing stores through the global (immutability frame).
func (v *Verifier) tableInit(fx *fnExec, g *ssa.Global) (SV, bool) {
	et := g.Type().(*types.Pointer).Elem()
	if st, isSlice := et.Underlying().(*types.Slice); isSlice {
		return v.sliceTableInit(fx, g, st)
	}
	at, ok := et.Underlying().(*types.Array)
	if !ok {
		return nil, false
	}
	if _, ok := fx.scalarSort(at.Elem()); !ok {
		return nil, false
	}
	if !v.globalImmutable(g) {
		fx.noteUnspec("package-level table " + g.Name() + " is written somewhere: treated as unknown")
		return nil, false
	}
	var pkg *packages.Package
	packages.Visit(v.pkgs, nil, func(p *packages.Package) {
		if p.Types == g.Pkg.Pkg {
			pkg = p
		}
	})
	if pkg == nil {
		return nil, false
	}
	var lit *ast.CompositeLit
	for _, f := range pkg.Syntax {
		for _, d := range f.Decls {
			gd, ok := d.(*ast.GenDecl)
			if !ok || gd.Tok != token.VAR {
				continue
			}
			for _, sp := range gd.Specs {
				vs := sp.(*ast.ValueSpec)
				for i, n := range vs.Names {
					if pkg.TypesInfo.Defs[n] == g.Object() && i < len(vs.Values) {
						if cl, ok := vs.Values[i].(*ast.CompositeLit); ok {
							lit = cl
						}
					}
				}
			}
		}
	}
	if lit == nil {
		return nil, false
	}
	es, _ := fx.scalarSort(at.Elem())
	arr := fx.zeroOfSort(arrSort(fx.isort(), es))
	idx := int64(0)
	for _, e := range lit.Elts {
		val := e
		if kv, ok := e.(*ast.KeyValueExpr); ok {
			tv := pkg.TypesInfo.Types[kv.Key]
			if tv.Value == nil {
				return nil, false
			}
			k, _ := constant.Int64Val(constant.ToInt(tv.Value))
			idx = k
			val = kv.Value
		}
		tv := pkg.TypesInfo.Types[val]
		if tv.Value == nil {
			return nil, false
		}
		cv := fx.constSV(tv.Value, at.Elem())
		arr = tStore(arr, fx.litTo(big.NewInt(idx), fx.isort()), fx.sc(cv, es))
		idx++
	}
	fx.tablesUsed[g.Name()] = true
	return Sc{arr, et}, true
}

func (v *Verifier) globalImmutable(g *ssa.Global) bool {
	if r, ok := v.immut[g]; ok {
		return r
	}
	res := true
	var rooted func(x ssa.Value) bool
	rooted = func(x ssa.Value) bool {
		switch y := x.(type) {
		case *ssa.Global:
			return y == g
		case *ssa.FieldAddr:
			return rooted(y.X)
		case *ssa.IndexAddr:
			return rooted(y.X)
		}
		return false
	}
	for fn := range ssautil.AllFunctions(v.prog) {
		if fn.Pkg == g.Pkg && fn.Name() == "init" {
			continue
		}
		if fn.Pkg != g.Pkg && !g.Object().Exported() {
			continue
		}
		for _, b := range fn.Blocks {
			for _, in := range b.Instrs {
				switch x := in.(type) {
				case *ssa.Store:
					if rooted(x.Addr) {
						res = false
					}
				case *ssa.Slice:
					if rooted(x.X) {
						res = false // a slice of the table may be written through
					}
				case *ssa.Call:
					for _, a := range x.Call.Args {
						if rooted(a) {
							res = false
						}
					}
				}
			}
		}
	}
	v.immut[g] = res
	return res
}

func (v *Verifier) knownFor(obl string) *KnownFinding {
	if v.known == nil {
		return nil
	}
	for i := range v.known.Findings {
		k := &v.known.Findings[i]
		if k.Status == "known" && k.Obligation == obl && (v.prop == "" || k.Property == v.prop) {
			return k
		}
	}
	return nil
}

type sliceTable struct {
	ref     Term
	content Term
	heap    string
	sort    string
}

func (v *Verifier) findGlobalInit(g *ssa.Global) (*packages.Package, ast.Expr) {
	var pkg *packages.Package
	packages.Visit(v.pkgs, nil, func(p *packages.Package) {
		if p.Types == g.Pkg.Pkg {
			pkg = p
		}
	})
	if pkg == nil {
		return nil, nil
	}
	for _, f := range pkg.Syntax {
		for _, d := range f.Decls {
			gd, ok := d.(*ast.GenDecl)
			if !ok || gd.Tok != token.VAR {
				continue
			}
			for _, sp := range gd.Specs {
				vs := sp.(*ast.ValueSpec)
				for i, n := range vs.Names {
					if pkg.TypesInfo.Defs[n] == g.Object() && i < len(vs.Values) {
						return pkg, vs.Values[i]
					}
				}
			}
		}
	}
	return pkg, nil
}

// sliceTableInit: `var t = []byte("constant")`, never written and never leaked.
func (v *Verifier) sliceTableInit(fx *fnExec, g *ssa.Global, st *types.Slice) (SV, bool) {
	eb, ok := st.Elem().Underlying().(*types.Basic)
	if !ok || eb.Kind() != types.Uint8 || fx.mode != "int" {
		return nil, false
	}
	pkg, init := v.findGlobalInit(g)
	var str string
	if lit, isLit := init.(*ast.CompositeLit); isLit {
		// []byte{c0, c1, ...} with constant elements
		bs := make([]byte, 0, len(lit.Elts))
		for _, e := range lit.Elts {
			if _, kv := e.(*ast.KeyValueExpr); kv {
				return nil, false
			}
			tv := pkg.TypesInfo.Types[e]
			if tv.Value == nil {
				return nil, false
			}
			n, exact := constant.Int64Val(constant.ToInt(tv.Value))
			if !exact || n < 0 || n > 255 {
				return nil, false
			}
			bs = append(bs, byte(n))
		}
		str = string(bs)
	} else {
		call, ok := init.(*ast.CallExpr)
		if !ok || len(call.Args) != 1 {
			return nil, false
		}
		tv := pkg.TypesInfo.Types[call.Args[0]]
		if tv.Value == nil || tv.Value.Kind() != constant.String {
			return nil, false
		}
		str = constant.StringVal(tv.Value)
	}
	if !v.sliceGlobalReadOnly(g) {
		if os.Getenv("GOVC_DEBUG") != "" {
			fmt.Fprintln(os.Stderr, "table", g.Name(), "not read-only")
		}
		fx.noteUnspec("package-level table " + g.Name() + " may be written or leaked: treated as unknown")
		return nil, false
	}
	ref := Term{"tbl$" + san(g.Name()), SInt}
	fx.declare(ref.S, SInt)
	fx.assumps = append(fx.assumps, fmt.Sprintf("(assert (> %s 0))", ref.S))
	content := fx.zeroOfSort(arrSort(SInt, SInt))
	for i := 0; i < len(str); i++ {
		content = tStore(content, intLit64(int64(i)), intLit64(int64(str[i])))
	}
	fx.sliceTables[g] = &sliceTable{ref: ref, content: content, heap: "E.byte", sort: arrSort(SInt, arrSort(SInt, SInt))}
	fx.tablesUsed[g.Name()] = true
	n := intLit64(int64(len(str)))
	return Sl{ref, intLit64(0), n, n, st.Elem()}, true
}

// sliceGlobalReadOnly: every use of the global is a load whose value is only indexed for reading (or measured).
func (v *Verifier) sliceGlobalReadOnly(g *ssa.Global) bool {
	if r, ok := v.immut[g]; ok {
		return r
	}
	res := true
	var readOnlyValue func(x ssa.Value) bool
	readOnlyValue = func(x ssa.Value) bool {
		refs := x.Referrers()
		if refs == nil {
			return true
		}
		for _, r := range *refs {
			switch y := r.(type) {
			case *ssa.DebugRef:
			case *ssa.IndexAddr:
				for _, rr := range *y.Referrers() {
					if u, ok := rr.(*ssa.UnOp); ok && u.Op == token.MUL {
						continue
					}
					if _, ok := rr.(*ssa.DebugRef); ok {
						continue
					}
					return false
				}
			case *ssa.Call:
				if b, ok := y.Call.Value.(*ssa.Builtin); ok && (b.Name() == "len" || b.Name() == "cap") {
					continue
				}
				return false
			default:
				return false
			}
		}
		return true
	}
	for fn := range ssautil.AllFunctions(v.prog) {
		if fn.Pkg != g.Pkg {
			continue
		}
		for _, b := range fn.Blocks {
			for _, in := range b.Instrs {
				for _, op := range in.Operands(nil) {
					if *op != ssa.Value(g) {
						continue
					}
					switch y := in.(type) {
					case *ssa.UnOp:
						if y.Op != token.MUL || !readOnlyValue(y) {
							res = false
						}
					case *ssa.Store:
						if fn.Name() != "init" || y.Addr != ssa.Value(g) {
							res = false
						}
					case *ssa.DebugRef:
					default:
						res = false
					}
				}
			}
		}
	}
	v.immut[g] = res
	return res
}

// errSentinel: g is a package-level variable of type error that the package initialiser sets once to the result of
// errors.New / fmt.Errorf and that no function of the program stores to afterwards.
func (v *Verifier) errSentinel(g *ssa.Global) bool {
	if g.Pkg == nil || g.Object() == nil {
		return false
	}
	if r, ok := v.sentMemo[g]; ok {
		return r
	}
	res := false
	et := g.Type().(*types.Pointer).Elem()
	if types.Identical(et, types.Universe.Lookup("error").Type()) && v.globalImmutable(g) {
		if init := g.Pkg.Func("init"); init != nil {
			n := 0
			okInit := true
			for _, b := range init.Blocks {
				for _, in := range b.Instrs {
					st, isSt := in.(*ssa.Store)
					if !isSt || st.Addr != g {
						continue
					}
					n++
					val := st.Val
					if mi, isMI := val.(*ssa.MakeInterface); isMI {
						val = mi.X
					}
					c, isCall := val.(*ssa.Call)
					if !isCall || c.Call.StaticCallee() == nil {
						okInit = false
						continue
					}
					switch c.Call.StaticCallee().String() {
					case "errors.New", "fmt.Errorf":
					default:
						okInit = false
					}
				}
			}
			res = okInit && n == 1
		}
	}
	v.sentMemo[g] = res
	return res
}

func (v *Verifier) sentinelByName(pkg, name string) *ssa.Global {
	for _, p := range v.prog.AllPackages() {
		if p.Pkg.Name() != pkg {
			continue
		}
		if g, ok := p.Members[name].(*ssa.Global); ok && v.errSentinel(g) {
			return g
		}
	}
	return nil
}
