package main

import (
	"bufio"
	"fmt"
	"os"
	"path/filepath"
	"regexp"
	"sort"
	"strconv"
	"strings"
)

type Clause struct {
	Label string
	Src   string
	E     Expr
	Modes []string // nil: all modes
	Where string   // file:line
	// Portable: the clause is proved in the function's own mode(s) and may be used by callers verified in another
	// mode; a separate obligation shows that its bit-vector and integer readings agree.
	Portable bool
}

var currentTier = "quick"

func (c Clause) inMode(m string) bool {
	if len(c.Modes) == 0 {
		return true
	}
	if len(c.Modes) == 1 && c.Modes[0] == "thorough-tier" {
		return currentTier == "thorough"
	}
	for _, x := range c.Modes {
		if x == m {
			return true
		}
	}
	return false
}

type LoopSpec struct {
	Invs      []Clause
	Decreases *Clause
	Modifies  []string // extra ghost/heap names to havoc (rarely needed)
}

type GhostDecl struct {
	Name string
	Type string // int, bool, ref, or map sorts "int->int"
	Init Expr   // may be nil (unconstrained)
}

// Hook: ghost code attached to an event of the function.
//
//	on call <callee-pattern> [when <expr>]: x = e; y = e2
//	on store <var>: ...
//	on return: assert e
type Hook struct {
	Event    string // "call", "store", "return", "loop"
	Target   string
	When     Expr
	Assigns  []HookStmt
	Where    string
	Optional bool
}
type HookStmt struct {
	Kind  string // "assign", "assert", "assume"
	LHS   string
	E     Expr
	Label string
	Src   string
}

type FuncContract struct {
	Name      string
	Extern    bool
	File      string
	Modes     []string
	Requires  []Clause
	Ensures   []Clause
	PanicsIff *Clause
	MayPanic  bool
	Loops     map[int]*LoopSpec
	Modifies  []string
	ModSet    bool
	Uses      []string
	Opts      map[string]string
	Ghosts    []GhostDecl
	Hooks     []Hook
	Pure      bool
	Terminal  string // "panic" | "exit"
	Props     []string
	Assumes   []Clause // trusted assumptions at entry (reported)
	Asserts   []AssertAt
	Where     string
	Split     *SplitSpec
	Cases     []Clause // the whole function is verified once per case (extra entry assumption); exhaustiveness is an obligation
	Trusted   bool     // assumed contract on a function of the repository (listed in the evidence)
}

// SplitSpec: postconditions are proved by exhaustive case split on an integer parameter:
// one obligation per value in [Lo,Hi] plus one for everything outside.
type SplitSpec struct {
	Var    string
	Lo, Hi int
}

// AssertAt: an intermediate assertion (proof hint) at the head of a loop or
// at return; proved, then assumed.
type AssertAt struct {
	At string // "loop N exit", "return"
	C  Clause
}

type Define struct {
	Name   string
	Params []string
	Body   Expr
	Src    string
}
type Declare struct {
	Name   string
	Args   []string // SMT sorts
	Ret    string
	GoType string // optional Go type of the result ("as *TaxNode"), so that fields can be selected on it
}
type Lemma struct {
	Name     string
	Vars     []QVar
	Requires []Clause
	Ensures  []Clause
	Uses     []string
	Assumed  bool
	Props    []string
	Mode     string
	Where    string
}

type Contracts struct {
	Funcs    map[string]*FuncContract
	Defines  map[string]*Define
	Declares map[string]*Declare
	Axioms   map[string]Clause
	Lemmas   map[string]*Lemma
	Ghosts   map[string]GhostDecl // package-level ghost state
	RawSMT   []string
	Files    []string
	order    []string
}

func newContracts() *Contracts {
	return &Contracts{Funcs: map[string]*FuncContract{}, Defines: map[string]*Define{}, Declares: map[string]*Declare{},
		Axioms: map[string]Clause{}, Lemmas: map[string]*Lemma{}, Ghosts: map[string]GhostDecl{}}
}

var labelRe = regexp.MustCompile(`^([A-Za-z_][A-Za-z0-9_\-.]*):\s+(.*)$`)
var modeTagRe = regexp.MustCompile(`^\[([a-z,]+)\]\s*(.*)$`)

func mkClause(rest, where string) (Clause, error) {
	c := Clause{Where: where}
	rest = strings.TrimSpace(rest)
	if m := modeTagRe.FindStringSubmatch(rest); m != nil {
		c.Modes = strings.Split(m[1], ",")
		if m[1] == "portable" {
			c.Modes = nil
			c.Portable = true
		}
		if m[1] == "thorough" {
			// proved (and available to callers) in the thorough tier only: too slow for the every-change check
			c.Modes = []string{"thorough-tier"}
		}
		rest = m[2]
	}
	if m := labelRe.FindStringSubmatch(rest); m != nil && !strings.HasPrefix(m[2], ":") {
		c.Label = m[1]
		rest = m[2]
	}
	c.Src = rest
	e, err := parseSpec(rest)
	if err != nil {
		return c, fmt.Errorf("%s: %v", where, err)
	}
	c.E = e
	return c, nil
}

var topKeywords = map[string]bool{"func": true, "extern": true, "trusted": true, "define": true, "declare": true, "axiom": true, "lemma": true, "ghost": true, "smt": true, "end": true}
var fnKeywords = map[string]bool{"mode": true, "requires": true, "ensures": true, "panics_iff": true, "may_panic": true, "loop": true,
	"modifies": true, "uses": true, "opt": true, "ghost": true, "on": true, "pure": true, "terminal": true, "prop": true, "assume": true, "assert": true, "vars": true, "assumed": true, "split": true, "cases": true}

// loadContractFile parses one file. goFile: lines are taken from "//@" comments.
func (cs *Contracts) loadFile(path string, goFile bool) error {
	f, err := os.Open(path)
	if err != nil {
		return err
	}
	defer f.Close()
	cs.Files = append(cs.Files, path)
	sc := bufio.NewScanner(f)
	sc.Buffer(make([]byte, 1<<20), 1<<20)
	type ln struct {
		s  string
		no int
	}
	var lines []ln
	no := 0
	for sc.Scan() {
		no++
		s := sc.Text()
		if goFile {
			t := strings.TrimSpace(s)
			if !strings.HasPrefix(t, "//@") {
				continue
			}
			s = strings.TrimPrefix(t, "//@")
		}
		// strip trailing comment "  // ..." or leading '#'
		ts := strings.TrimSpace(s)
		if ts == "" || strings.HasPrefix(ts, "#") {
			continue
		}
		if i := strings.Index(s, " //"); i >= 0 && !strings.Contains(s[i:], "\"") {
			s = s[:i]
		}
		ts = strings.TrimSpace(s)
		if ts == "" {
			continue
		}
		// continuation: first word not a keyword
		w := firstWord(ts)
		if len(lines) > 0 && !topKeywords[w] && !fnKeywords[w] {
			lines[len(lines)-1].s += " " + ts
			continue
		}
		lines = append(lines, ln{ts, no})
	}
	var cur *FuncContract
	var curLemma *Lemma
	for _, l := range lines {
		where := fmt.Sprintf("%s:%d", filepath.Base(filepath.Dir(path))+"/"+filepath.Base(path), l.no)
		w := firstWord(l.s)
		rest := strings.TrimSpace(strings.TrimPrefix(l.s, w))
		inFn := cur != nil || curLemma != nil
		if topKeywords[w] && !(inFn && w == "ghost") {
			cur, curLemma = nil, nil
			switch w {
			case "end":
			case "func", "extern", "trusted":
				ext := false
				if w == "extern" || w == "trusted" {
					ext = true
					rest = strings.TrimSpace(strings.TrimPrefix(rest, "func"))
				}
				name := rest
				if _, dup := cs.Funcs[name]; dup {
					return fmt.Errorf("%s: duplicate contract for %s", where, name)
				}
				cur = &FuncContract{Name: name, Extern: ext, Trusted: w == "trusted", File: path, Loops: map[int]*LoopSpec{}, Opts: map[string]string{}, Where: where}
				cs.Funcs[name] = cur
				cs.order = append(cs.order, name)
			case "define":
				// define name(a,b) = expr
				dmode := ""
				if m := modeTagRe.FindStringSubmatch(rest); m != nil {
					dmode = m[1]
					rest = m[2]
				}
				i := strings.Index(rest, "=")
				if i < 0 {
					return fmt.Errorf("%s: bad define", where)
				}
				head := strings.TrimSpace(rest[:i])
				body := strings.TrimSpace(rest[i+1:])
				// careful: '=' might be part of '==' if no params... require "name(...) ="
				op := strings.Index(head, "(")
				d := &Define{Src: body}
				if op >= 0 {
					d.Name = strings.TrimSpace(head[:op])
					ps := strings.TrimSuffix(strings.TrimSpace(head[op+1:]), ")")
					for _, p := range strings.Split(ps, ",") {
						p = strings.TrimSpace(p)
						if p != "" {
							d.Params = append(d.Params, p)
						}
					}
				} else {
					d.Name = head
				}
				e, err := parseSpec(body)
				if err != nil {
					return fmt.Errorf("%s: %v", where, err)
				}
				d.Body = e
				if dmode != "" {
					cs.Defines[d.Name+"@"+dmode] = d
				} else {
					cs.Defines[d.Name] = d
				}
			case "declare":
				// declare name(Sort, Sort) Sort
				op := strings.Index(rest, "(")
				cp := strings.LastIndex(rest, ")")
				if op < 0 || cp < 0 {
					return fmt.Errorf("%s: bad declare", where)
				}
				retS := strings.TrimSpace(rest[cp+1:])
				goT := ""
				if i := strings.Index(retS, " as "); i >= 0 {
					goT = strings.TrimSpace(retS[i+4:])
					retS = strings.TrimSpace(retS[:i])
				}
				d := &Declare{Name: strings.TrimSpace(rest[:op]), Ret: sortName(retS), GoType: goT}
				for _, a := range strings.Split(rest[op+1:cp], ",") {
					a = strings.TrimSpace(a)
					if a != "" {
						d.Args = append(d.Args, sortName(a))
					}
				}
				cs.Declares[d.Name] = d
			case "axiom":
				c, err := mkClause(rest, where)
				if err != nil {
					return err
				}
				if c.Label == "" {
					return fmt.Errorf("%s: axiom needs a name", where)
				}
				cs.Axioms[c.Label] = c
			case "lemma":
				curLemma = &Lemma{Name: rest, Where: where, Mode: "int"}
				cs.Lemmas[rest] = curLemma
			case "ghost":
				g, err := parseGhost(rest)
				if err != nil {
					return fmt.Errorf("%s: %v", where, err)
				}
				cs.Ghosts[g.Name] = g
			case "smt":
				cs.RawSMT = append(cs.RawSMT, rest)
			}
			continue
		}
		if curLemma != nil {
			switch w {
			case "vars":
				for _, p := range strings.Split(rest, ",") {
					fs := strings.Fields(p)
					if len(fs) != 2 {
						return fmt.Errorf("%s: bad vars", where)
					}
					curLemma.Vars = append(curLemma.Vars, QVar{fs[0], fs[1]})
				}
			case "requires", "ensures":
				c, err := mkClause(rest, where)
				if err != nil {
					return err
				}
				if w == "requires" {
					curLemma.Requires = append(curLemma.Requires, c)
				} else {
					curLemma.Ensures = append(curLemma.Ensures, c)
				}
			case "uses":
				curLemma.Uses = append(curLemma.Uses, splitList(rest)...)
			case "assumed":
				curLemma.Assumed = true
			case "prop":
				curLemma.Props = append(curLemma.Props, strings.Fields(rest)...)
			case "mode":
				curLemma.Mode = rest
			default:
				return fmt.Errorf("%s: unexpected %q in lemma", where, w)
			}
			continue
		}
		if cur == nil {
			return fmt.Errorf("%s: clause %q outside a func block", where, w)
		}
		switch w {
		case "mode":
			cur.Modes = splitList(rest)
		case "requires", "ensures", "panics_iff", "assume":
			c, err := mkClause(rest, where)
			if err != nil {
				return err
			}
			switch w {
			case "requires":
				cur.Requires = append(cur.Requires, c)
			case "ensures":
				cur.Ensures = append(cur.Ensures, c)
			case "panics_iff":
				cur.PanicsIff = &c
			case "assume":
				cur.Assumes = append(cur.Assumes, c)
			}
		case "assert":
			// assert loop N exit: E | assert return: E
			i := strings.Index(rest, ":")
			if i < 0 {
				return fmt.Errorf("%s: bad assert", where)
			}
			c, err := mkClause(rest[i+1:], where)
			if err != nil {
				return err
			}
			cur.Asserts = append(cur.Asserts, AssertAt{strings.TrimSpace(rest[:i]), c})
		case "may_panic":
			cur.MayPanic = true
		case "loop":
			fs := strings.Fields(rest)
			if len(fs) < 3 {
				return fmt.Errorf("%s: bad loop clause", where)
			}
			n, err := strconv.Atoi(fs[0])
			if err != nil {
				return fmt.Errorf("%s: bad loop ordinal", where)
			}
			ls := cur.Loops[n]
			if ls == nil {
				ls = &LoopSpec{}
				cur.Loops[n] = ls
			}
			body := strings.TrimSpace(strings.TrimPrefix(strings.TrimSpace(strings.TrimPrefix(rest, fs[0])), fs[1]))
			switch fs[1] {
			case "invariant":
				c, err := mkClause(body, where)
				if err != nil {
					return err
				}
				ls.Invs = append(ls.Invs, c)
			case "decreases":
				c, err := mkClause(body, where)
				if err != nil {
					return err
				}
				ls.Decreases = &c
			case "modifies":
				ls.Modifies = append(ls.Modifies, splitList(body)...)
			default:
				return fmt.Errorf("%s: bad loop clause kind %q", where, fs[1])
			}
		case "modifies":
			cur.ModSet = true
			for _, m := range splitList(rest) {
				if m != "nothing" {
					cur.Modifies = append(cur.Modifies, m)
				}
			}
		case "uses":
			cur.Uses = append(cur.Uses, splitList(rest)...)
		case "opt":
			fs := strings.Fields(rest)
			if len(fs) == 2 {
				cur.Opts[fs[0]] = fs[1]
			} else {
				return fmt.Errorf("%s: bad opt", where)
			}
		case "ghost":
			g, err := parseGhost(rest)
			if err != nil {
				return fmt.Errorf("%s: %v", where, err)
			}
			cur.Ghosts = append(cur.Ghosts, g)
		case "on":
			h, err := parseHook(rest, where)
			if err != nil {
				return err
			}
			cur.Hooks = append(cur.Hooks, h)
		case "split":
			fs := strings.Fields(rest)
			if len(fs) != 3 {
				return fmt.Errorf("%s: split VAR LO HI", where)
			}
			lo, e1 := strconv.Atoi(fs[1])
			hi, e2 := strconv.Atoi(fs[2])
			if e1 != nil || e2 != nil || hi < lo {
				return fmt.Errorf("%s: bad split bounds", where)
			}
			cur.Split = &SplitSpec{fs[0], lo, hi}
		case "cases":
			for _, part := range strings.Split(rest, " | ") {
				c, err := mkClause(part, where)
				if err != nil {
					return err
				}
				cur.Cases = append(cur.Cases, c)
			}
		case "pure":
			cur.Pure = true
		case "terminal":
			cur.Terminal = rest
		case "prop":
			cur.Props = append(cur.Props, strings.Fields(rest)...)
		default:
			return fmt.Errorf("%s: unknown clause %q", where, w)
		}
	}
	return nil
}

func firstWord(s string) string {
	for i, c := range s {
		if c == ' ' || c == '\t' {
			return s[:i]
		}
	}
	return s
}
func splitList(s string) []string {
	var r []string
	for _, p := range strings.FieldsFunc(s, func(c rune) bool { return c == ',' || c == ' ' }) {
		if p != "" {
			r = append(r, p)
		}
	}
	return r
}

func sortName(s string) string {
	switch s {
	case "int", "Int", "ref", "Ref", "byte":
		return SInt
	case "bool", "Bool":
		return SBool
	case "str", "Str", "string":
		return SStr
	case "IntArr":
		return arrSort(SInt, SInt)
	case "BoolArr":
		return arrSort(SInt, SBool)
	case "IntArr2":
		return arrSort(SInt, arrSort(SInt, SInt))
	}
	if strings.HasPrefix(s, "BV") {
		if w, err := strconv.Atoi(s[2:]); err == nil {
			return bvSort(w)
		}
	}
	return s
}

// ghost x int = 0 | ghost m IntArr | ghost flag bool = false
func parseGhost(rest string) (GhostDecl, error) {
	var g GhostDecl
	init := ""
	if i := strings.Index(rest, "="); i >= 0 {
		init = strings.TrimSpace(rest[i+1:])
		rest = strings.TrimSpace(rest[:i])
	}
	fs := strings.Fields(rest)
	if len(fs) != 2 {
		return g, fmt.Errorf("bad ghost declaration %q", rest)
	}
	g.Name, g.Type = fs[0], fs[1]
	if init != "" {
		e, err := parseSpec(init)
		if err != nil {
			return g, err
		}
		g.Init = e
	}
	return g, nil
}

// on call NAME [when E]: stmts   (stmts: "x = e; assert label: e; assume e")
func parseHook(rest, where string) (Hook, error) {
	h := Hook{Where: where}
	i := strings.Index(rest, ": ")
	if i < 0 {
		if strings.HasSuffix(rest, ":") {
			i = len(rest) - 1
		} else {
			return h, fmt.Errorf("%s: hook needs ':'", where)
		}
	}
	head := strings.TrimSpace(rest[:i])
	body := ""
	if i+1 < len(rest) {
		body = strings.TrimSpace(rest[i+1:])
	}
	if j := strings.Index(head, " when "); j >= 0 {
		e, err := parseSpec(head[j+6:])
		if err != nil {
			return h, fmt.Errorf("%s: %v", where, err)
		}
		h.When = e
		head = strings.TrimSpace(head[:j])
	}
	fs := strings.Fields(head)
	if len(fs) < 1 {
		return h, fmt.Errorf("%s: bad hook head", where)
	}
	if fs[0] == "optional" && len(fs) > 1 {
		// a hook kept for program points the code may or may not contain (not reported when it matches nothing)
		h.Optional = true
		fs = fs[1:]
	}
	h.Event = fs[0]
	if len(fs) > 1 {
		h.Target = strings.Join(fs[1:], " ")
	}
	for _, st := range strings.Split(body, ";") {
		st = strings.TrimSpace(st)
		if st == "" {
			continue
		}
		var hs HookStmt
		hs.Src = st
		switch {
		case strings.HasPrefix(st, "assert "):
			c, err := mkClause(st[7:], where)
			if err != nil {
				return h, err
			}
			hs.Kind, hs.E, hs.Label = "assert", c.E, c.Label
		case strings.HasPrefix(st, "assume "):
			c, err := mkClause(st[7:], where)
			if err != nil {
				return h, err
			}
			hs.Kind, hs.E = "assume", c.E
		case strings.HasPrefix(st, "havoc "):
			hs.Kind, hs.LHS = "havoc", strings.TrimSpace(st[6:])
		case strings.HasPrefix(st, "apply "):
			// apply lemma(args): an explicit instance of a lemma proved on its own (forall vars. requires ==> ensures)
			e, err := parseSpec(strings.TrimSpace(st[6:]))
			if err != nil {
				return h, fmt.Errorf("%s: %v", where, err)
			}
			if _, ok := e.(ECall); !ok {
				return h, fmt.Errorf("%s: apply expects lemma(args)", where)
			}
			hs.Kind, hs.E = "apply", e
		default:
			k := strings.Index(st, "=")
			if k < 0 {
				return h, fmt.Errorf("%s: bad hook statement %q", where, st)
			}
			hs.Kind = "assign"
			hs.LHS = strings.TrimSpace(st[:k])
			e, err := parseSpec(strings.TrimSpace(st[k+1:]))
			if err != nil {
				return h, fmt.Errorf("%s: %v", where, err)
			}
			hs.E = e
		}
		h.Assigns = append(h.Assigns, hs)
	}
	return h, nil
}

// loadAllContracts reads /verif/contracts/*.ctr and <repo>/pkg/**/zz_contracts_verif.go
func loadAllContracts(verifDir, repoDir string) (*Contracts, error) {
	cs := newContracts()
	ctrs, _ := filepath.Glob(filepath.Join(verifDir, "contracts", "*.ctr"))
	sort.Strings(ctrs)
	for _, p := range ctrs {
		if err := cs.loadFile(p, false); err != nil {
			return nil, err
		}
	}
	var gofiles []string
	filepath.Walk(filepath.Join(repoDir, "pkg"), func(p string, info os.FileInfo, err error) error {
		if err == nil && !info.IsDir() && info.Name() == "zz_contracts_verif.go" {
			gofiles = append(gofiles, p)
		}
		return nil
	})
	sort.Strings(gofiles)
	for _, p := range gofiles {
		if err := cs.loadFile(p, true); err != nil {
			return nil, err
		}
	}
	return cs, nil
}
