package main

// Helper functions extracted since the lock was written are executed in place.
//
// Verification is modular: at a call site only the callee's contract is known, and a callee without contract is an
// unknown function (result unconstrained, what it may write havocked).  A behaviour-preserving "extract these lines
// into a helper" refactoring therefore turns proved obligations into unprovable ones - an alarm on code where the
// property holds.  /verif/locals.lock records the functions each loaded package had when the lock was written; a
// function that is NOT in that list (new since then), has no contract, no loop, no defer/go/panic/closure and only
// calls builtins, functions under contract, effect-free functions or other such helpers is symbolically executed
// inside its caller (strongest postcondition of its body - nothing is assumed about it).  Functions that existed
// when the lock was written keep the modular treatment, so the obligations of the unchanged tree do not depend on
// this mechanism.  Runtime-panic and overflow obligations are not generated inside the helper (as for any callee,
// its own safety is not the caller's obligation).  Each use is reported in the evidence.

import (
	"fmt"
	"go/types"
	"strings"

	"golang.org/x/tools/go/ssa"
)

const funcsLockPrefix = "$functions:"

func (v *Verifier) isNewFunction(g *ssa.Function) bool {
	if g == nil || g.Pkg == nil || g.Pkg.Pkg == nil {
		return false
	}
	l, ok := v.readLocalsLock()[funcsLockPrefix+g.Pkg.Pkg.Path()]
	if !ok {
		return false
	}
	k := fnKey(g)
	for _, e := range l {
		if e.Name == k {
			return false
		}
	}
	return true
}

func (v *Verifier) inlineable(g *ssa.Function, depth int) bool {
	if g == nil || len(g.Blocks) == 0 || len(g.FreeVars) > 0 || g.Recover != nil || depth > 2 {
		return false
	}
	if v.cs.Funcs[fnKey(g)] != nil || !v.isNewFunction(g) {
		return false
	}
	n := 0
	for _, b := range g.Blocks {
		for _, s := range b.Succs {
			if s.Dominates(b) {
				return false // loop
			}
		}
		for _, in := range b.Instrs {
			n++
			switch x := in.(type) {
			case *ssa.Panic, *ssa.Go, *ssa.Defer, *ssa.Select, *ssa.Send, *ssa.MakeClosure, *ssa.MakeChan, *ssa.Range, *ssa.Next:
				return false
			case *ssa.UnOp:
				if x.Op.String() == "<-" {
					return false
				}
			case *ssa.Call:
				c := &x.Call
				if _, isB := c.Value.(*ssa.Builtin); isB {
					continue
				}
				if c.IsInvoke() {
					if v.cs.Funcs[calleeName(c)] == nil && !v.isNoEffect(calleeName(c)) {
						return false
					}
					continue
				}
				f, ok := c.Value.(*ssa.Function)
				if !ok {
					return false
				}
				name := fnKey(f)
				if v.cs.Funcs[name] != nil || v.isNoEffect(name) {
					continue
				}
				if f.Origin() != nil && v.cs.Funcs[fnKey(f.Origin())] != nil {
					continue
				}
				if f == g || !v.inlineable(f, depth+1) {
					return false
				}
			}
		}
	}
	return n <= 120
}

func blockOrderOf(fn *ssa.Function) []*ssa.BasicBlock {
	var order []*ssa.BasicBlock
	seen := map[*ssa.BasicBlock]bool{}
	var dfs func(b *ssa.BasicBlock)
	dfs = func(b *ssa.BasicBlock) {
		seen[b] = true
		for _, s := range b.Succs {
			if s.Dominates(b) {
				continue
			}
			if !seen[s] {
				dfs(s)
			}
		}
		order = append(order, b)
	}
	dfs(fn.Blocks[0])
	for i, j := 0, len(order)-1; i < j; i, j = i+1, j-1 {
		order[i], order[j] = order[j], order[i]
	}
	return order
}

// inlineCall executes the body of g in the caller's state.
func (fx *fnExec) inlineCall(dst *ssa.Call, g *ssa.Function, args []SV, where string) {
	fx.inlinedHelpers[fnKey(g)] = true
	saveFn, saveR, saveExits, saveCall := fx.fn, fx.curR, fx.exits, fx.curCall
	saveSafety, saveOvf := fx.safetyChecks, fx.overflowChecks
	fx.exits = nil
	fx.inlining++
	fx.fn = g
	fx.safetyChecks, fx.overflowChecks = false, false
	defer func() {
		fx.fn, fx.exits, fx.curCall = saveFn, saveExits, saveCall
		fx.safetyChecks, fx.overflowChecks = saveSafety, saveOvf
		fx.inlining--
	}()
	for i, p := range g.Params {
		if i < len(args) {
			fx.vals[p] = fx.fit(args[i], p.Type())
		}
	}
	order := blockOrderOf(g)
	for _, b := range order {
		delete(fx.inEdges, b)
	}
	for _, b := range order {
		var st *State
		R := saveR
		if b == g.Blocks[0] {
			st = fx.st
		} else {
			es := fx.inEdges[b]
			if len(es) == 0 {
				continue
			}
			rc := fx.freshConst(fmt.Sprintf("Ri%d", b.Index), SBool)
			var cs []Term
			for _, e := range es {
				cs = append(cs, e.cond)
			}
			fx.assumps = append(fx.assumps, "(assert (= "+rc.S+" "+tOr(cs...).S+"))")
			R = rc
			fx.curR = R
			st = fx.mergeStates(es)
			for _, in := range b.Instrs {
				phi, ok := in.(*ssa.Phi)
				if !ok {
					break
				}
				var vs []SV
				var pcs []Term
				for _, e := range es {
					for pi, p := range b.Preds {
						if p == e.from {
							save := fx.st
							fx.st = e.st
							vs = append(vs, fx.fit(fx.val(phi.Edges[pi]), phi.Type()))
							fx.st = save
							pcs = append(pcs, e.cond)
							break
						}
					}
				}
				fx.vals[phi] = fx.mergeSV(vs, pcs, "phi")
			}
		}
		fx.st = st
		fx.curR = R
		fx.live = true
		fx.execBlock(b)
	}
	rets := fx.exits
	if len(rets) == 0 {
		fx.live = false
		return
	}
	var res SV
	if len(rets) == 1 {
		fx.st = rets[0].st
		res = rets[0].res
	} else {
		var es []edge
		var vs []SV
		var cs []Term
		for _, r := range rets {
			es = append(es, edge{cond: r.cond, st: r.st})
			vs = append(vs, r.res)
			cs = append(cs, r.cond)
		}
		fx.st = fx.mergeStates(es)
		if rets[0].res != nil {
			res = fx.mergeSV(vs, cs, "inl_"+shortName(fnKey(g)))
		}
	}
	fx.curR = saveR
	fx.live = true
	if dst != nil && res != nil {
		fx.setResult(dst, res)
	}
}

var _ = types.Typ
var _ = strings.HasPrefix
