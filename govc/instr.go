package main

import (
	"fmt"
	"go/token"
	"go/types"
	"math/big"
	"strings"

	"golang.org/x/tools/go/ssa"
)

func (fx *fnExec) execInstr(in ssa.Instruction) {
	where := fx.pos(in.Pos())
	switch x := in.(type) {
	case *ssa.DebugRef:
	case *ssa.Phi:
		// handled at block entry
	case *ssa.Alloc:
		fx.execAlloc(x)
	case *ssa.Store:
		ad, ok := fx.val(x.Addr).(Ad)
		if !ok {
			ad = fx.derefAd(fx.val(x.Addr), x.Addr.Type(), where)
		}
		v := fx.val(x.Val)
		fx.prevStored = nil
		if ad.Cell == nil && fx.ctr != nil && len(fx.ctr.Hooks) > 0 {
			// value overwritten by a store into the heap: `previous` in store hooks
			fx.prevStored = fx.load(ad)
		} else if ad.Cell != nil && fx.ctr != nil && len(fx.ctr.Hooks) > 0 {
			// a local variable being overwritten: its current value, when it has one
			func() {
				defer func() {
					if r := recover(); r != nil {
						if _, isVC := r.(vcError); !isVC {
							panic(r)
						}
						fx.prevStored = nil
					}
				}()
				fx.prevStored = fx.load(ad)
			}()
		}
		fx.store(ad, v)
		fx.runStoreHooks(x, ad, where)
	case *ssa.UnOp:
		fx.execUnOp(x, where)
	case *ssa.BinOp:
		a, b := fx.val(x.X), fx.val(x.Y)
		fx.vals[x] = fx.goBinop(x.Op, a, b, x.X.Type(), x.Y.Type(), where)
	case *ssa.FieldAddr:
		base := fx.val(x.X)
		pt := x.X.Type().Underlying().(*types.Pointer).Elem()
		stt := pt.Underlying().(*types.Struct)
		f := stt.Field(x.Field)
		switch b := base.(type) {
		case Ad:
			nb := b
			nb.Path = append(append([]pathEl{}, b.Path...), pathEl{Field: x.Field, Name: f.Name()})
			nb.rootTyps = append(append([]types.Type{}, b.rootTypsOr()...), f.Type())
			nb.Typ = f.Type()
			fx.vals[x] = nb
		default:
			ref := fx.sc(base, SInt)
			fx.oblige("safety:nil-deref", "safety", tNot(tEq(ref, intLit64(0))), where, "pointer != nil")
			fx.vals[x] = Ad{Heap: "F." + typeKey(pt), Idx: []Term{ref}, Path: []pathEl{{Field: x.Field, Name: f.Name()}}, Typ: f.Type(), rootTyps: []types.Type{pt, f.Type()}}
		}
	case *ssa.Field:
		s, ok := fx.val(x.X).(St)
		if !ok {
			panic(vcErr("Field on %T", fx.val(x.X)))
		}
		fx.vals[x] = s.F[x.Field]
	case *ssa.IndexAddr:
		fx.execIndexAddr(x, where)
	case *ssa.Index:
		fx.execIndex(x, where)
	case *ssa.Lookup:
		fx.execLookup(x, where)
	case *ssa.Slice:
		fx.execSlice(x, where)
	case *ssa.MakeSlice:
		fx.execMakeSlice(x, where)
	case *ssa.MakeMap:
		r := fx.freshRef("map")
		fx.mapInit(r, x.Type())
		fx.vals[x] = Sc{r, x.Type()}
	case *ssa.MapUpdate:
		fx.execMapUpdate(x, where)
	case *ssa.MakeChan:
		fx.vals[x] = Sc{fx.freshRef("chan"), x.Type()}
	case *ssa.MakeInterface:
		fx.vals[x] = fx.makeInterface(fx.val(x.X), x.X.Type(), x.Type())
	case *ssa.MakeClosure:
		fn := x.Fn.(*ssa.Function)
		var bs []SV
		for i, b := range x.Bindings {
			bv := fx.val(b)
			bs = append(bs, bv)
			if ad, ok := bv.(Ad); ok && ad.Cell != nil {
				if closureStores(fn, fn.FreeVars[i], map[*ssa.Function]bool{}) {
					fx.sharedMut[ad.Cell] = true
				}
			}
		}
		fv := FnV{Fn: fn, Bindings: bs, Ref: fx.freshRef("closure")}
		fx.vals[x] = fv
		fx.closureSemantics(x, fv, where)
	case *ssa.Call:
		fx.execCall(x, &x.Call, where)
	case *ssa.Extract:
		tu, ok := fx.val(x.Tuple).(Tu)
		if !ok {
			panic(vcErr("extract from %T", fx.val(x.Tuple)))
		}
		fx.vals[x] = tu.E[x.Index]
	case *ssa.Convert:
		fx.execConvert(x, where)
	case *ssa.ChangeType:
		v := fx.val(x.X)
		fx.vals[x] = retype(v, x.Type())
	case *ssa.ChangeInterface:
		fx.vals[x] = retype(fx.val(x.X), x.Type())
	case *ssa.TypeAssert:
		fx.execTypeAssert(x, where)
	case *ssa.If:
		c := fx.sc(fx.val(x.Cond), SBool)
		b := x.Block()
		fx.addEdge(b, b.Succs[0], tAnd(fx.curR, c))
		fx.addEdge(b, b.Succs[1], tAnd(fx.curR, tNot(c)))
	case *ssa.Jump:
		b := x.Block()
		fx.addEdge(b, b.Succs[0], fx.curR)
	case *ssa.Return:
		var res SV
		switch len(x.Results) {
		case 0:
		case 1:
			res = fx.fit(fx.val(x.Results[0]), fx.fn.Signature.Results().At(0).Type())
		default:
			var tu Tu
			for i, r := range x.Results {
				tu.E = append(tu.E, fx.fit(fx.val(r), fx.fn.Signature.Results().At(i).Type()))
			}
			res = tu
		}
		fx.exits = append(fx.exits, exitRec{fx.curR, fx.st.clone(), res})
	case *ssa.Panic:
		fx.panicSite(where, "panic")
	case *ssa.Go:
		fx.execGo(x, where)
	case *ssa.Defer:
		fx.st.defers = append(fx.st.defers, deferRec{x, tTrue})
	case *ssa.RunDefers:
		ds := fx.st.defers
		fx.st.defers = nil
		for i := len(ds) - 1; i >= 0 && fx.live; i-- {
			dr := ds[i]
			if dr.guard.S == "true" {
				fx.execCall(nil, &dr.d.Call, fx.pos(dr.d.Pos()))
				continue
			}
			if fx.v.isNoEffect(calleeName(&dr.d.Call)) {
				continue
			}
			before := fx.st.clone()
			saveR := fx.curR
			fx.curR = tAnd(saveR, dr.guard)
			fx.execCall(nil, &dr.d.Call, fx.pos(dr.d.Pos()))
			if !fx.live {
				fx.live = true
				fx.curR = tAnd(saveR, tNot(dr.guard))
				fx.st = before
				continue
			}
			after := fx.st
			fx.curR = saveR
			fx.st = fx.mergeStates([]edge{{cond: tAnd(saveR, dr.guard), st: after}, {cond: tAnd(saveR, tNot(dr.guard)), st: before}})
		}
	case *ssa.Range:
		fx.execRange(x, where)
	case *ssa.Next:
		fx.execNext(x, where)
	case *ssa.Send:
		fx.execSend(x, where)
	case *ssa.Select:
		panic(vcErr("select is outside the supported subset (%s)", where))
	case *ssa.SliceToArrayPointer, *ssa.MultiConvert:
		panic(vcErr("%T is outside the supported subset (%s)", in, where))
	default:
		panic(vcErr("instruction %T unsupported (%s)", in, where))
	}
}

func (ad Ad) rootTypsOr() []types.Type {
	if ad.rootTyps != nil {
		return ad.rootTyps
	}
	return []types.Type{ad.Typ}
}

func retype(v SV, t types.Type) SV {
	switch x := v.(type) {
	case Sc:
		return Sc{x.T, t}
	case St:
		return St{Typ: t, F: x.F}
	}
	return v
}

func closureStores(fn *ssa.Function, fv *ssa.FreeVar, seen map[*ssa.Function]bool) bool {
	if seen[fn] {
		return false
	}
	seen[fn] = true
	var rooted func(v ssa.Value) bool
	rooted = func(v ssa.Value) bool {
		switch x := v.(type) {
		case *ssa.FreeVar:
			return x == fv
		case *ssa.FieldAddr:
			return rooted(x.X)
		case *ssa.IndexAddr:
			return rooted(x.X)
		}
		return false
	}
	for _, b := range fn.Blocks {
		for _, in := range b.Instrs {
			switch x := in.(type) {
			case *ssa.Store:
				if rooted(x.Addr) {
					return true
				}
			case *ssa.MakeClosure:
				for i, bnd := range x.Bindings {
					if bnd == fv {
						if closureStores(x.Fn.(*ssa.Function), x.Fn.(*ssa.Function).FreeVars[i], seen) {
							return true
						}
					}
				}
			}
		}
	}
	return false
}

func (fx *fnExec) execAlloc(x *ssa.Alloc) {
	et := x.Type().(*types.Pointer).Elem()
	if isArrayBacking(x) {
		at := et.Underlying().(*types.Array)
		r := fx.freshRef("arr")
		n := fx.litTo(big.NewInt(at.Len()), fx.isort())
		z := fx.zeroOfSort(fx.isort())
		// zero-initialised
		for _, l := range fx.leaves(at.Elem()) {
			name := "E." + typeKey(at.Elem()) + l.suffix
			so := fx.heapSortFor("E.", l)
			h := fx.heap(fx.st, name, so)
			fx.st.heaps[name] = tStore(h, r, fx.zeroOfSort(arrSort(fx.isort(), l.sort)))
		}
		fx.vals[x] = Sl{r, z, n, n, at.Elem()}
		return
	}
	if isCellAlloc(x) {
		fx.st.cells[x] = fx.zero(et)
		fx.vals[x] = Ad{Cell: x, Typ: et, rootTyps: []types.Type{et}}
		return
	}
	// heap object
	r := fx.freshRef("new_" + x.Comment)
	fx.vals[x] = Sc{r, x.Type()}
	ad := Ad{Heap: "F." + typeKey(et), Idx: []Term{r}, Typ: et, rootTyps: []types.Type{et}}
	fx.store(ad, fx.zero(et))
}

// derefAd turns a pointer value into an address.
func (fx *fnExec) derefAd(p SV, pt types.Type, where string) Ad {
	switch x := p.(type) {
	case Ad:
		return x
	case Sc:
		et := pt.Underlying().(*types.Pointer).Elem()
		fx.oblige("safety:nil-deref", "safety", tNot(tEq(x.T, intLit64(0))), where, "pointer != nil")
		return Ad{Heap: "F." + typeKey(et), Idx: []Term{x.T}, Typ: et, rootTyps: []types.Type{et}}
	case Sl:
		// pointer to array backing
		panic(vcErr("whole-array load/store through array pointer unsupported (%s)", where))
	}
	panic(vcErr("dereference of %T (%s)", p, where))
}

func (fx *fnExec) execUnOp(x *ssa.UnOp, where string) {
	switch x.Op {
	case token.MUL:
		ad := fx.derefAd(fx.val(x.X), x.X.Type(), where)
		v := fx.load(ad)
		if ad.Cell == nil {
			fx.assumeAlive(v)
		} else if tb := fx.sliceTables[ad.Cell]; tb != nil && len(ad.Path) == 0 {
			// immutable table: its content is the initialiser, whatever happened to the rest of the heap
			h := fx.heap(fx.st, tb.heap, tb.sort)
			fx.assume(tEq(tSel(h, tb.ref), tb.content))
		}
		fx.vals[x] = v
	case token.NOT:
		fx.vals[x] = Sc{tNot(fx.sc(fx.val(x.X), SBool)), x.Type()}
	case token.SUB:
		v := fx.val(x.X)
		if l, ok := v.(Lit); ok {
			fx.vals[x] = Lit{new(big.Int).Neg(l.V)}
			return
		}
		t := fx.sc(v, "")
		if t.So == SFlt {
			fx.vals[x] = Sc{app(SFlt, "f.neg", t), x.Type()}
			return
		}
		ii, _ := intInfoOf(x.Type())
		if fx.mode == "bv" {
			fx.vals[x] = Sc{app(t.So, "bvneg", t), x.Type()}
		} else {
			r := app(SInt, "-", t)
			if ii.signed && fx.overflowChecks {
				fx.oblige("overflow", "overflow", inRange(r, ii), where, "negation in range")
				fx.vals[x] = Sc{r, x.Type()}
			} else {
				fx.vals[x] = Sc{wrapInt(r, ii), x.Type()}
			}
		}
	case token.XOR:
		t := fx.sc(fx.val(x.X), "")
		ii, _ := intInfoOf(x.Type())
		if fx.mode == "bv" {
			fx.vals[x] = Sc{app(t.So, "bvnot", t), x.Type()}
		} else if ii.signed {
			fx.vals[x] = Sc{app(SInt, "-", app(SInt, "-", t), intLit64(1)), x.Type()}
		} else {
			fx.vals[x] = Sc{app(SInt, "-", intLit(ii.max()), t), x.Type()}
		}
	case token.ARROW:
		fx.execRecv(x, where)
	default:
		panic(vcErr("unary %s unsupported", x.Op))
	}
}

func (fx *fnExec) idx(v SV) Term { return fx.sc(v, fx.isort()) }

func (fx *fnExec) iLe(a, b Term) Term {
	if fx.mode == "bv" {
		return app(SBool, "bvsle", a, b)
	}
	return app(SBool, "<=", a, b)
}
func (fx *fnExec) iLt(a, b Term) Term {
	if fx.mode == "bv" {
		return app(SBool, "bvslt", a, b)
	}
	return app(SBool, "<", a, b)
}
func (fx *fnExec) iAdd(a, b Term) Term {
	if fx.mode == "bv" {
		return app(a.So, "bvadd", a, b)
	}
	if a.S == "0" {
		return b
	}
	if b.S == "0" {
		return a
	}
	return app(SInt, "+", a, b)
}
func (fx *fnExec) iSub(a, b Term) Term {
	if fx.mode == "bv" {
		return app(a.So, "bvsub", a, b)
	}
	if b.S == "0" {
		return a
	}
	return app(SInt, "-", a, b)
}
func (fx *fnExec) iZero() Term { return fx.zeroOfSort(fx.isort()) }
func (fx *fnExec) iLit(n int64) Term {
	return fx.litTo(big.NewInt(n), fx.isort())
}

func (fx *fnExec) execIndexAddr(x *ssa.IndexAddr, where string) {
	base := fx.val(x.X)
	i := fx.idx(fx.toIndexInt(fx.val(x.Index), x.Index.Type()))
	switch b := base.(type) {
	case Sl:
		fx.oblige("safety:index", "safety", tAnd(fx.iLe(fx.iZero(), i), fx.iLt(i, b.Len)), where, "0 <= index < len")
		fx.vals[x] = Ad{Heap: "E." + typeKey(b.Elem), Idx: []Term{b.Arr, fx.eIdx(b.Off, i)}, Typ: b.Elem, IsElem: true, rootTyps: []types.Type{b.Elem}}
	case Ad:
		at, ok := b.Typ.Underlying().(*types.Array)
		if !ok {
			panic(vcErr("IndexAddr on address of %s", b.Typ))
		}
		fx.oblige("safety:index", "safety", tAnd(fx.iLe(fx.iZero(), i), fx.iLt(i, fx.iLit(at.Len()))), where, "0 <= index < array length")
		nb := b
		nb.Path = append(append([]pathEl{}, b.Path...), pathEl{Idx: &i})
		nb.rootTyps = append(append([]types.Type{}, b.rootTypsOr()...), at.Elem())
		nb.Typ = at.Elem()
		fx.vals[x] = nb
	case Sc:
		// pointer to array in the heap
		pt := x.X.Type().Underlying().(*types.Pointer).Elem()
		at := pt.Underlying().(*types.Array)
		fx.oblige("safety:nil-deref", "safety", tNot(tEq(b.T, intLit64(0))), where, "pointer != nil")
		fx.oblige("safety:index", "safety", tAnd(fx.iLe(fx.iZero(), i), fx.iLt(i, fx.iLit(at.Len()))), where, "0 <= index < array length")
		fx.vals[x] = Ad{Heap: "F." + typeKey(pt), Idx: []Term{b.T}, Path: []pathEl{{Idx: &i}}, Typ: at.Elem(), rootTyps: []types.Type{pt, at.Elem()}}
	default:
		panic(vcErr("IndexAddr on %T", base))
	}
}

// toIndexInt converts an index of any integer type to the mode's int sort.
func (fx *fnExec) toIndexInt(v SV, t types.Type) SV {
	if _, ok := v.(Lit); ok {
		return v
	}
	if r := fx.convert(v, t, types.Typ[types.Int], ""); r != nil {
		// conversion from unsigned 64 to int must not wrap for indexing: Go compares as unsigned; a huge index is out of range anyway
		ii, _ := intInfoOf(t)
		if fx.mode == "int" && !ii.signed && ii.w == 64 {
			return v
		}
		return r
	}
	return v
}

func (fx *fnExec) execIndex(x *ssa.Index, where string) {
	base := fx.val(x.X)
	i := fx.idx(fx.toIndexInt(fx.val(x.Index), x.Index.Type()))
	switch b := base.(type) {
	case Sc:
		if b.T.So == SStr {
			fx.vals[x] = fx.strAt(b.T, i, where)
			return
		}
		at, ok := x.X.Type().Underlying().(*types.Array)
		if !ok {
			panic(vcErr("Index on %s", x.X.Type()))
		}
		fx.oblige("safety:index", "safety", tAnd(fx.iLe(fx.iZero(), i), fx.iLt(i, fx.iLit(at.Len()))), where, "0 <= index < array length")
		fx.vals[x] = fx.walk(b, []pathEl{{Idx: &i}})
	case St:
		fx.vals[x] = fx.walk(b, []pathEl{{Idx: &i}})
	default:
		panic(vcErr("Index on %T", base))
	}
}

func (fx *fnExec) strAt(s, i Term, where string) SV {
	fx.needStr()
	if fx.mode == "bv" {
		panic(vcErr("string indexing in bv mode unsupported"))
	}
	n := app(SInt, "slen", s)
	fx.oblige("safety:index", "safety", tAnd(app(SBool, "<=", intLit64(0), i), app(SBool, "<", i, n)), where, "0 <= index < len(string)")
	c := app(SInt, "sat", s, i)
	fx.assume(tAnd(app(SBool, "<=", intLit64(0), c), app(SBool, "<", c, intLit64(256))))
	return Sc{c, types.Typ[types.Byte]}
}

func (fx *fnExec) execLookup(x *ssa.Lookup, where string) {
	base := fx.val(x.X)
	if _, ok := x.X.Type().Underlying().(*types.Map); ok {
		m := fx.sc(base, SInt)
		k := fx.val(x.Index)
		has, val := fx.mapGet(fx.st, m, x.X.Type(), k)
		mt := x.X.Type().Underlying().(*types.Map)
		val = fx.iteSV(has, val, fx.zero(mt.Elem()))
		if x.CommaOk {
			fx.vals[x] = Tu{[]SV{val, Sc{has, types.Typ[types.Bool]}}}
		} else {
			fx.vals[x] = val
		}
		return
	}
	// string index
	s := fx.sc(base, SStr)
	i := fx.idx(fx.toIndexInt(fx.val(x.Index), x.Index.Type()))
	fx.vals[x] = fx.strAt(s, i, where)
}

func (fx *fnExec) iteSV(c Term, a, b SV) SV {
	a = fx.fitLike(a, b)
	b = fx.fitLike(b, a)
	fa, fb := flatten(a), flatten(b)
	out := make([]Term, len(fa))
	for i := range fa {
		out[i] = tIte(c, fa[i], fb[i])
	}
	r, _ := rebuild(a, out)
	return r
}

func (fx *fnExec) fitLike(v, like SV) SV {
	if l, ok := v.(Lit); ok {
		if s, ok := like.(Sc); ok {
			return Sc{fx.litTo(l.V, s.T.So), s.Typ}
		}
		return Sc{fx.litTo(l.V, fx.isort()), nil}
	}
	return v
}

func (fx *fnExec) execSlice(x *ssa.Slice, where string) {
	base := fx.val(x.X)
	var lo, hi, mx *Term
	get := func(v ssa.Value) *Term {
		if v == nil {
			return nil
		}
		t := fx.idx(fx.toIndexInt(fx.val(v), v.Type()))
		return &t
	}
	lo, hi, mx = get(x.Low), get(x.High), get(x.Max)
	switch b := base.(type) {
	case Sl:
		_, isArrPtr := x.X.Type().Underlying().(*types.Pointer)
		l := fx.iZero()
		if lo != nil {
			l = *lo
		}
		h := b.Len
		if hi != nil {
			h = *hi
		}
		capT := b.Cap
		if isArrPtr {
			capT = b.Len
		}
		m := capT
		if mx != nil {
			m = *mx
		}
		fx.oblige("safety:slice-bounds", "safety", tAnd(fx.iLe(fx.iZero(), l), fx.iLe(l, h), fx.iLe(h, m), fx.iLe(m, capT)), where, "0 <= low <= high <= max <= cap")
		fx.vals[x] = Sl{b.Arr, fx.iAdd(b.Off, l), fx.iSub(h, l), fx.iSub(m, l), b.Elem}
	case Sc:
		if b.T.So == SStr {
			fx.needStr()
			n := app(SInt, "slen", b.T)
			l := intLit64(0)
			if lo != nil {
				l = *lo
			}
			h := n
			if hi != nil {
				h = *hi
			}
			fx.oblige("safety:slice-bounds", "safety", tAnd(app(SBool, "<=", intLit64(0), l), app(SBool, "<=", l, h), app(SBool, "<=", h, n)), where, "0 <= low <= high <= len(string)")
			r := app(SStr, "str.sub", b.T, l, h)
			fx.assume(tEq(app(SInt, "slen", r), app(SInt, "-", h, l)))
			q := fmt.Sprintf("(forall ((i$q Int)) (! (=> (and (<= 0 i$q) (< i$q (- %s %s))) (= (sat %s i$q) (sat %s (+ %s i$q)))) :pattern ((sat %s i$q))))", h.S, l.S, r.S, b.T.S, l.S, r.S)
			fx.assume(Term{q, SBool})
			fx.vals[x] = Sc{r, x.Type()}
			return
		}
		panic(vcErr("Slice on scalar %s", x.X.Type()))
	default:
		panic(vcErr("Slice on %T (%s)", base, where))
	}
}

func (fx *fnExec) execMakeSlice(x *ssa.MakeSlice, where string) {
	n := fx.idx(fx.toIndexInt(fx.val(x.Len), x.Len.Type()))
	c := fx.idx(fx.toIndexInt(fx.val(x.Cap), x.Cap.Type()))
	fx.oblige("safety:makeslice", "safety", tAnd(fx.iLe(fx.iZero(), n), fx.iLe(n, c)), where, "0 <= len <= cap")
	et := x.Type().Underlying().(*types.Slice).Elem()
	r := fx.freshRef("mk")
	for _, l := range fx.leaves(et) {
		name := "E." + typeKey(et) + l.suffix
		so := fx.heapSortFor("E.", l)
		h := fx.heap(fx.st, name, so)
		fx.st.heaps[name] = tStore(h, r, fx.zeroOfSort(arrSort(fx.isort(), l.sort)))
	}
	fx.vals[x] = Sl{r, fx.iZero(), n, c, et}
}

// ---- maps

func (fx *fnExec) mapHeaps(mt types.Type) (hasName string, hasSort string, ksort string, valPre string) {
	m := mt.Underlying().(*types.Map)
	ks, ok := fx.keySort(m.Key())
	if !ok {
		panic(vcErr("map key type %s unsupported", m.Key()))
	}
	pre := "M." + typeKey(m.Key()) + "." + typeKey(m.Elem())
	return pre + "#has", arrSort(SInt, arrSort(ks, SBool)), ks, pre + "#val"
}

func (fx *fnExec) mapValLeafSort(ks string, l leaf) string {
	return arrSort(SInt, arrSort(ks, l.sort))
}

func (fx *fnExec) mapInit(r Term, mt types.Type) {
	hn, hs, ks, vp := fx.mapHeaps(mt)
	h := fx.heap(fx.st, hn, hs)
	fx.st.heaps[hn] = tStore(h, r, fx.zeroOfSort(arrSort(ks, SBool)))
	ln := strings.TrimSuffix(hn, "#has") + "#len"
	lh := fx.heap(fx.st, ln, arrSort(SInt, fx.isort()))
	fx.st.heaps[ln] = tStore(lh, r, fx.iZero())
	_ = vp
}

func (fx *fnExec) mapGet(st *State, m Term, mt types.Type, k SV) (Term, SV) {
	hn, hs, ks, vp := fx.mapHeaps(mt)
	kt := fx.keyTerm(k, mt.Underlying().(*types.Map).Key(), ks)
	h := fx.heap(st, hn, hs)
	has := tAnd(tNot(tEq(m, intLit64(0))), tSel(tSel(h, m), kt))
	et := mt.Underlying().(*types.Map).Elem()
	val := fx.build(et, func(l leaf) Term {
		vh := fx.heap(st, vp+l.suffix, fx.mapValLeafSort(ks, l))
		t := tSel(tSel(vh, m), kt)
		if st == fx.st && !strings.Contains(t.S, "$q") {
			fx.rangeFact(t, l)
		}
		return t
	})
	return has, val
}

func (fx *fnExec) mapLen(st *State, m Term, mt types.Type) Term {
	hn, _, _, _ := fx.mapHeaps(mt)
	ln := strings.TrimSuffix(hn, "#has") + "#len"
	lh := fx.heap(st, ln, arrSort(SInt, fx.isort()))
	if fx.mode != "bv" {
		// typed memory: the number of entries of a map is never negative
		key := "maplen>=0:" + lh.S + ":" + m.S
		if !fx.declared[key] && !strings.Contains(m.S, "$q") {
			fx.declared[key] = true
			saveR := fx.curR
			fx.curR = tTrue
			fx.assume(app(SBool, ">=", tSel(lh, m), fx.iZero()))
			fx.curR = saveR
		}
	}
	return tIte(tEq(m, intLit64(0)), fx.iZero(), tSel(lh, m))
}

func (fx *fnExec) execMapUpdate(x *ssa.MapUpdate, where string) {
	m := fx.sc(fx.val(x.Map), SInt)
	mt := x.Map.Type()
	fx.oblige("safety:nil-map", "safety", tNot(tEq(m, intLit64(0))), where, "map != nil")
	hn, hs, ks, vp := fx.mapHeaps(mt)
	kt := fx.keyTerm(fx.val(x.Key), mt.Underlying().(*types.Map).Key(), ks)
	et := mt.Underlying().(*types.Map).Elem()
	v := fx.fit(fx.val(x.Value), et)
	h := fx.heap(fx.st, hn, hs)
	had := tSel(tSel(h, m), kt)
	var prevV SV
	if fx.ctr != nil && len(fx.ctr.Hooks) > 0 {
		_, prevV = fx.mapGet(fx.st, m, mt, fx.val(x.Key))
	}
	fx.st.heaps[hn] = tStore(h, m, tStore(tSel(h, m), kt, tTrue))
	fl := flatten(v)
	for i, l := range fx.leaves(et) {
		name := vp + l.suffix
		vh := fx.heap(fx.st, name, fx.mapValLeafSort(ks, l))
		fx.st.heaps[name] = tStore(vh, m, tStore(tSel(vh, m), kt, fl[i]))
	}
	ln := strings.TrimSuffix(hn, "#has") + "#len"
	lh := fx.heap(fx.st, ln, arrSort(SInt, fx.isort()))
	cur := tSel(lh, m)
	fx.st.heaps[ln] = tStore(lh, m, tIte(had, cur, fx.iAdd(cur, fx.iLit(1))))
	env := fx.curEnv()
	// names for hooks: the map written, the key, the value stored, whether the key was present and its old value
	env.names["target"] = Sc{m, mt}
	env.names["key"] = fx.val(x.Key)
	env.names["stored"] = v
	env.names["had"] = Sc{had, types.Typ[types.Bool]}
	if prevV != nil {
		env.names["previous"] = prevV
	}
	fx.runHooks("mapupdate", x.Map.Name(), env, where)
}

func (fx *fnExec) mapDelete(m Term, mt types.Type, k SV) {
	hn, hs, ks, _ := fx.mapHeaps(mt)
	kt := fx.keyTerm(k, mt.Underlying().(*types.Map).Key(), ks)
	h := fx.heap(fx.st, hn, hs)
	had := tAnd(tNot(tEq(m, intLit64(0))), tSel(tSel(h, m), kt))
	fx.st.heaps[hn] = tIte(tEq(m, intLit64(0)), h, tStore(h, m, tStore(tSel(h, m), kt, tFalse)))
	ln := strings.TrimSuffix(hn, "#has") + "#len"
	lh := fx.heap(fx.st, ln, arrSort(SInt, fx.isort()))
	cur := tSel(lh, m)
	fx.st.heaps[ln] = tIte(had, tStore(lh, m, fx.iSub(cur, fx.iLit(1))), lh)
}

// ---- interfaces

func (fx *fnExec) makeInterface(v SV, from, to types.Type) SV {
	key := typeKey(from)
	fl := flatten(fx.fit(v, from))
	if len(fl) == 1 {
		fn := "box$" + key
		fx.declareFun(fn, []string{fl[0].So}, SInt)
		fx.declareFun("unbox$"+key, []string{SInt}, fl[0].So)
		fx.declareFun("dyn$type", []string{SInt}, SInt)
		r := app(SInt, fn, fl[0])
		tid := fx.v.typeID(key)
		fx.assume(tAnd(tNot(tEq(r, intLit64(0))), tEq(app(fl[0].So, "unbox$"+key, r), fl[0]), tEq(app(SInt, "dyn$type", r), intLit64(int64(tid)))))
		return Sc{r, to}
	}
	r := fx.freshConst("iface", SInt)
	fx.declareFun("dyn$type", []string{SInt}, SInt)
	fx.assume(tAnd(tNot(tEq(r, intLit64(0))), tEq(app(SInt, "dyn$type", r), intLit64(int64(fx.v.typeID(key))))))
	return Sc{r, to}
}

func (fx *fnExec) execTypeAssert(x *ssa.TypeAssert, where string) {
	v := fx.sc(fx.val(x.X), SInt)
	if _, isIface := x.AssertedType.Underlying().(*types.Interface); isIface {
		ok := fx.freshConst("ta_ok", SBool)
		res := Sc{v, x.AssertedType}
		if x.CommaOk {
			fx.assume(tImp(tEq(v, intLit64(0)), tNot(ok)))
			fx.vals[x] = Tu{[]SV{res, Sc{ok, types.Typ[types.Bool]}}}
		} else {
			fx.vals[x] = res
		}
		return
	}
	key := typeKey(x.AssertedType)
	fx.declareFun("dyn$type", []string{SInt}, SInt)
	isT := tAnd(tNot(tEq(v, intLit64(0))), tEq(app(SInt, "dyn$type", v), intLit64(int64(fx.v.typeID(key)))))
	ls := fx.leaves(x.AssertedType)
	var val SV
	if len(ls) == 1 {
		fx.declareFun("unbox$"+key, []string{SInt}, ls[0].sort)
		u := app(ls[0].sort, "unbox$"+key, v)
		fx.rangeFact(u, ls[0])
		val = Sc{u, x.AssertedType}
	} else {
		val = fx.freshSV(x.AssertedType, "ta")
		fx.wfValue(val)
	}
	if x.CommaOk {
		val = fx.iteSV(isT, val, fx.zero(x.AssertedType))
		fx.vals[x] = Tu{[]SV{val, Sc{isT, types.Typ[types.Bool]}}}
	} else {
		fx.oblige("safety:type-assert", "safety", isT, where, "dynamic type is "+key)
		fx.vals[x] = val
	}
}

func (fx *fnExec) execConvert(x *ssa.Convert, where string) {
	v := fx.val(x.X)
	from, to := x.X.Type(), x.Type()
	if r := fx.convert(v, from, to, where); r != nil {
		fx.vals[x] = r
		return
	}
	fu, tu := from.Underlying(), to.Underlying()
	// string <-> []byte
	if fs, ok := fu.(*types.Slice); ok {
		if tb, ok := tu.(*types.Basic); ok && tb.Info()&types.IsString != 0 {
			if eb, ok := fs.Elem().Underlying().(*types.Basic); ok && eb.Kind() == types.Uint8 && fx.mode == "int" {
				sl := v.(Sl)
				fx.needStr()
				h := fx.heap(fx.st, "E.byte", arrSort(SInt, arrSort(SInt, SInt)))
				content := tSel(h, sl.Arr)
				r := app(SStr, "str.of", content, sl.Off, sl.Len)
				fx.assume(tEq(app(SInt, "slen", r), sl.Len))
				q := fmt.Sprintf("(forall ((i$q Int)) (! (=> (and (<= 0 i$q) (< i$q %s)) (= (sat %s i$q) (select %s (+ %s i$q)))) :pattern ((sat %s i$q))))", sl.Len.S, r.S, content.S, sl.Off.S, r.S)
				fx.assume(Term{q, SBool})
				fx.vals[x] = Sc{r, to}
				return
			}
		}
	}
	if ts, ok := tu.(*types.Slice); ok {
		if fb, ok := fu.(*types.Basic); ok && fb.Info()&types.IsString != 0 {
			if eb, ok := ts.Elem().Underlying().(*types.Basic); ok && eb.Kind() == types.Uint8 && fx.mode == "int" {
				s := fx.sc(v, SStr)
				fx.needStr()
				r := fx.freshRef("s2b")
				n := app(SInt, "slen", s)
				fx.assume(app(SBool, "<=", intLit64(0), n))
				name := "E.byte"
				h := fx.heap(fx.st, name, arrSort(SInt, arrSort(SInt, SInt)))
				c := fx.freshConst("s2bc", arrSort(SInt, SInt))
				q := fmt.Sprintf("(forall ((i$q Int)) (! (=> (and (<= 0 i$q) (< i$q %s)) (= (select %s i$q) (sat %s i$q))) :pattern ((select %s i$q))))", n.S, c.S, s.S, c.S)
				fx.assume(Term{q, SBool})
				fx.st.heaps[name] = tStore(h, r, c)
				fx.vals[x] = Sl{r, intLit64(0), n, n, ts.Elem()}
				return
			}
		}
	}
	// pointer <-> unsafe.Pointer, same-underlying conversions
	if types.Identical(fu, tu) {
		fx.vals[x] = retype(v, to)
		return
	}
	// anything else: unconstrained result of the target type
	r := fx.freshSV(to, "conv")
	fx.wfValue(r)
	fx.vals[x] = r
	fx.noteUnspec("conversion " + from.String() + " -> " + to.String())
}

func (fx *fnExec) noteUnspec(s string) { fx.unspecCallees[s] = true }

// ---- go, range, channels (history abstraction lives in hooks)

func (fx *fnExec) execGo(x *ssa.Go, where string) {
	fx.runHooks("go", calleeName(&x.Call), fx.curEnv(), where)
	fx.havocShared()
	// maps the spawned function writes (m[k] = v, delete) are shared with it: their content is unknown from here on, and
	// again after every join (WaitGroup.Wait) - the spawner must not reason as if the map still were what it made
	if callee := goCallee(x); callee != nil {
		ms := newModSet()
		fx.asyncMapMods(callee, ms, map[*ssa.Function]bool{})
		if len(ms.heaps) > 0 {
			fx.havoc(ms, "go")
		}
	}
}

func goCallee(x *ssa.Go) *ssa.Function {
	switch f := x.Call.Value.(type) {
	case *ssa.Function:
		return f
	case *ssa.MakeClosure:
		return f.Fn.(*ssa.Function)
	}
	return nil
}

// collectAsyncMods: the maps written by any function this function spawns (whatever the order in which the blocks are
// executed symbolically, a join placed after the spawning loop must see them as unknown).
func (fx *fnExec) collectAsyncMods() {
	fx.asyncMods = nil
	ms := newModSet()
	for _, b := range fx.fn.Blocks {
		for _, in := range b.Instrs {
			if g, ok := in.(*ssa.Go); ok {
				fx.asyncMapMods(goCallee(g), ms, map[*ssa.Function]bool{})
			}
		}
	}
	if len(ms.heaps) > 0 {
		fx.asyncMods = ms
	}
}

func (fx *fnExec) asyncMapMods(fn *ssa.Function, ms *modSet, seen map[*ssa.Function]bool) {
	if fn == nil || seen[fn] {
		return
	}
	seen[fn] = true
	for _, b := range fn.Blocks {
		for _, in := range b.Instrs {
			switch y := in.(type) {
			case *ssa.MapUpdate:
				if _, _, _, _, ok := fx.tryMapHeaps(y.Map.Type()); ok {
					hn, _, _, _ := fx.mapHeaps(y.Map.Type())
					ms.heaps[strings.TrimSuffix(hn, "has")+"*"] = true
				}
			case *ssa.Call:
				if bi, isB := y.Call.Value.(*ssa.Builtin); isB && bi.Name() == "delete" {
					if _, _, _, _, ok := fx.tryMapHeaps(y.Call.Args[0].Type()); ok {
						hn, _, _, _ := fx.mapHeaps(y.Call.Args[0].Type())
						ms.heaps[strings.TrimSuffix(hn, "has")+"*"] = true
					}
				}
			case *ssa.MakeClosure:
				fx.asyncMapMods(y.Fn.(*ssa.Function), ms, seen)
			}
		}
	}
}

func (fx *fnExec) tryMapHeaps(mt types.Type) (a, b, c, d string, ok bool) {
	defer func() {
		if r := recover(); r != nil {
			if _, isVC := r.(vcError); !isVC {
				panic(r)
			}
			ok = false
		}
	}()
	a, b, c, d = fx.mapHeaps(mt)
	return a, b, c, d, true
}

func (fx *fnExec) havocShared() {
	if len(fx.sharedMut) == 0 {
		return
	}
	ms := newModSet()
	for c := range fx.sharedMut {
		ms.cells[c] = true
	}
	fx.havoc(ms, "shared")
}

type rangeState struct {
	x     *ssa.Range
	isMap bool
	str   Term
	pos   Term // string position (cell-like, threaded through state ghost)
	m     Term
	seenG string // ghost name of the seen set
}

func (fx *fnExec) execRange(x *ssa.Range, where string) {
	v := fx.val(x.X)
	name := fmt.Sprintf("$range%d", len(fx.ranges))
	rs := &rangeState{x: x}
	if mt, ok := x.X.Type().Underlying().(*types.Map); ok {
		rs.isMap = true
		rs.m = fx.sc(v, SInt)
		_, _, ks, _ := fx.mapHeaps(mt)
		rs.seenG = name
		fx.st.ghost[name] = Sc{fx.zeroOfSort(arrSort(ks, SBool)), nil}
		fx.st.ghost[name+"#n"] = Sc{fx.iZero(), nil}
	} else {
		rs.str = fx.sc(v, SStr)
		rs.seenG = name
		fx.st.ghost[name] = Sc{intLit64(0), nil}
	}
	fx.ranges[x] = rs
	fx.rangeNames[name] = rs
	fx.vals[x] = Sc{intLit64(0), nil}
}

func (fx *fnExec) execNext(x *ssa.Next, where string) {
	rs := fx.ranges[x.Iter.(*ssa.Range)]
	if rs == nil {
		panic(vcErr("next on unknown range"))
	}
	boolT := types.Typ[types.Bool]
	if !rs.isMap {
		// string range: byte-wise only for ASCII content is unsound for UTF-8; model as rune decode abstraction
		pos := fx.st.ghost[rs.seenG].(Sc).T
		n := app(SInt, "slen", rs.str)
		ok := app(SBool, "<", pos, n)
		w := fx.freshConst("runew", SInt)
		r := fx.freshConst("rune", SInt)
		fx.declareFun("rune.at", []string{SStr, SInt}, SInt)
		fx.declareFun("rune.w", []string{SStr, SInt}, SInt)
		fx.assume(tImp(ok, tAnd(tEq(w, app(SInt, "rune.w", rs.str, pos)), tEq(r, app(SInt, "rune.at", rs.str, pos)),
			app(SBool, "<=", intLit64(1), w), app(SBool, "<=", w, intLit64(4)), app(SBool, "<=", app(SInt, "+", pos, w), n),
			tImp(app(SBool, "<", app(SInt, "sat", rs.str, pos), intLit64(128)), tAnd(tEq(w, intLit64(1)), tEq(r, app(SInt, "sat", rs.str, pos)))),
			app(SBool, "<=", intLit64(0), r), app(SBool, "<=", r, intLit64(0x10FFFF)))))
		fx.st.ghost[rs.seenG] = Sc{tIte(ok, app(SInt, "+", pos, w), pos), nil}
		fx.vals[x] = Tu{[]SV{Sc{ok, boolT}, Sc{pos, types.Typ[types.Int]}, Sc{r, types.Typ[types.Rune]}}}
		return
	}
	mt := rs.x.X.Type()
	m := mt.Underlying().(*types.Map)
	hn, hs, ks, _ := fx.mapHeaps(mt)
	seen := fx.st.ghost[rs.seenG].(Sc).T
	cnt := fx.st.ghost[rs.seenG+"#n"].(Sc).T
	total := fx.mapLen(fx.st, rs.m, mt)
	ok := fx.iLt(cnt, total)
	k := fx.freshSV(m.Key(), "rk")
	kt := fx.keyTerm(k, m.Key(), ks)
	h := fx.heap(fx.st, hn, hs)
	// picks any present, unseen key
	fx.assume(tImp(ok, tAnd(tNot(tEq(rs.m, intLit64(0))), tSel(tSel(h, rs.m), kt), tNot(tSel(seen, kt)))))
	// when exhausted, every present key has been seen (cardinality link, assumed: ghost counting)
	q := fmt.Sprintf("(forall ((k$q %s)) (=> (select (select %s %s) k$q) (select %s k$q)))", ks, h.S, rs.m.S, seen.S)
	fx.assume(tImp(tNot(ok), tOr(tEq(rs.m, intLit64(0)), Term{q, SBool})))
	_, val := fx.mapGet(fx.st, rs.m, mt, k)
	fx.st.ghost[rs.seenG] = Sc{tIte(ok, tStore(seen, kt, tTrue), seen), nil}
	fx.st.ghost[rs.seenG+"#n"] = Sc{tIte(ok, fx.iAdd(cnt, fx.iLit(1)), cnt), nil}
	fx.vals[x] = Tu{[]SV{Sc{ok, boolT}, k, val}}
}

func (fx *fnExec) execSend(x *ssa.Send, where string) {
	env := fx.curEnv()
	env.names["sent"] = fx.val(x.X)
	env.names["ch"] = fx.val(x.Chan)
	if !fx.runHooks("send", x.Chan.Name(), env, where) {
		fx.noteUnspec("channel send without history hook at " + where)
	}
}

func (fx *fnExec) execRecv(x *ssa.UnOp, where string) {
	var res SV
	if x.CommaOk {
		res = fx.freshSV(x.Type(), "recv")
	} else {
		res = fx.freshSV(x.Type(), "recv")
	}
	fx.wfValue(res)
	fx.assumeAlive(res)
	fx.vals[x] = res
	env := fx.curEnv()
	env.names["received"] = res
	env.names["ch"] = fx.val(x.X)
	if !fx.runHooks("recv", x.X.Name(), env, where) {
		fx.noteUnspec("channel receive without history hook at " + where)
	}
}

// eIdx: absolute position of element i of a slice with offset off.  The uninterpreted symbol idx (defined by one
// axiom as off + i) keeps the position syntactically of the form (idx off <anything>), so that quantified facts
// about s[k] can be instantiated at arithmetic index terms such as n-1-j.
func (fx *fnExec) eIdx(off, i Term) Term {
	if fx.mode != "int" {
		return fx.iAdd(off, i)
	}
	if off.S == "0" {
		return i
	}
	fx.needIdx()
	return app(SInt, "idx", off, i)
}

func (fx *fnExec) needIdx() {
	fx.declareFun("idx", []string{SInt, SInt}, SInt)
	if !fx.declared["$idxax"] {
		fx.declared["$idxax"] = true
		fx.decls = append(fx.decls, "(assert (forall ((o$q Int) (k$q Int)) (! (= (idx o$q k$q) (+ o$q k$q)) :pattern ((idx o$q k$q)))))")
	}
}

// closureSemantics: when the closure's function has a contract with "opt semantics holds", the verdict of the new
// function value on every argument is the right-hand side of that contract's `ensures result == E` clauses, read with
// the captured variables at their values now.  Sound only if (1) the closure is pure (declared `pure`, checked on its
// body by its own obligations and frame), (2) no captured variable is assigned after the closure is made - neither by
// the closure, nor by another closure, nor by the rest of the creating function (obligation closure:captured-final),
// (3) E reads no memory (only parameters, captured values and uninterpreted record features).
func (fx *fnExec) closureSemantics(x *ssa.MakeClosure, fv FnV, where string) {
	fn := fv.Fn
	ctr := fx.v.cs.Funcs[fnKey(fn)]
	if ctr == nil || ctr.Opts["semantics"] != "holds" {
		return
	}
	if !ctr.Pure {
		panic(vcErr("%s: opt semantics holds needs a pure closure contract", fnKey(fn)))
	}
	if len(fn.Params) != 1 {
		panic(vcErr("%s: opt semantics holds supports one-parameter closures", fnKey(fn)))
	}
	// (2) captured variables are final
	final := true
	for i, b := range x.Bindings {
		if closureStores(fn, fn.FreeVars[i], map[*ssa.Function]bool{}) {
			final = false
		}
		if a, ok := b.(*ssa.Alloc); ok {
			if storesAfter(x, a) {
				final = false
			}
		} else if _, isFV := b.(*ssa.FreeVar); isFV {
			// a variable of an enclosing function, passed on: finality is that function's obligation
		} else {
			final = false
		}
	}
	fx.oblige("closure:captured-final", "site.closure", boolTerm(final), where, "variables captured by "+fnKey(fn)+" are not assigned after the closure is made")
	p := fn.Params[0]
	q := Term{"c$" + san(p.Name()) + "$q", SInt}
	env := &SpecEnv{fx: fx, cur: fx.st, old: fx.st, names: map[string]SV{}, bound: map[string]SV{}, callee: true}
	env.names[p.Name()] = Sc{q, p.Type()}
	env.bound[p.Name()] = Sc{q, p.Type()}
	for i, b := range fv.Bindings {
		var v SV
		if ad, ok := b.(Ad); ok {
			v = fx.load(ad)
		} else {
			v = b
		}
		env.names[fn.FreeVars[i].Name()] = v
	}
	var pre []Term
	for _, c := range ctr.Requires {
		pre = append(pre, fx.evalBool(c.E, env))
	}
	n := 0
	for _, c := range ctr.Ensures {
		eq, ok := c.E.(EBin)
		if !ok || eq.Op != "==" {
			continue
		}
		if id, isId := eq.X.(EIdent); !isId || id.Name != "result" {
			continue
		}
		rhs := fx.evalBool(eq.Y, env)
		if strings.Contains(rhs.S, "(select ") {
			panic(vcErr("%s: the semantics clause %q reads memory; use uninterpreted record features", fnKey(fn), c.Src))
		}
		fx.declareFun("holds", []string{SInt, SInt}, SBool)
		hold := app(SBool, "holds", fv.Ref, q)
		body := tImp(tAnd(pre...), Term{"(= " + hold.S + " " + rhs.S + ")", SBool})
		fx.assume(Term{fmt.Sprintf("(forall ((%s Int)) (! %s :pattern (%s)))", q.S, body.S, hold.S), SBool})
		n++
	}
	if n == 0 {
		panic(vcErr("%s: opt semantics holds needs a clause `ensures result == E`", fnKey(fn)))
	}
}

// storesAfter: some Store to the variable a may execute after the MakeClosure x (same block later, or a block
// reachable from x's block), or another closure made in the function assigns it.
func storesAfter(x *ssa.MakeClosure, a *ssa.Alloc) bool {
	fn := x.Parent()
	reach := map[*ssa.BasicBlock]bool{}
	var walk func(b *ssa.BasicBlock)
	walk = func(b *ssa.BasicBlock) {
		for _, s := range b.Succs {
			if !reach[s] {
				reach[s] = true
				walk(s)
			}
		}
	}
	walk(x.Block())
	for _, b := range fn.Blocks {
		after := reach[b]
		for _, in := range b.Instrs {
			if in == ssa.Instruction(x) {
				after = true
				continue
			}
			switch y := in.(type) {
			case *ssa.Store:
				if y.Addr == ssa.Value(a) && after {
					return true
				}
			case *ssa.MakeClosure:
				if y == x {
					continue
				}
				for i, bnd := range y.Bindings {
					if bnd == ssa.Value(a) && closureStores(y.Fn.(*ssa.Function), y.Fn.(*ssa.Function).FreeVars[i], map[*ssa.Function]bool{}) {
						return true
					}
				}
			}
		}
	}
	return false
}

// keySort: the SMT sort of a map key.  Scalars map to their own sort; a struct whose fields are all scalars (a pair of
// strings, say) maps to an SMT datatype with one constructor, so that two keys are equal iff all their fields are.
func (fx *fnExec) keySort(t types.Type) (string, bool) {
	if so, ok := fx.scalarSort(t); ok {
		return so, true
	}
	st, ok := t.Underlying().(*types.Struct)
	if !ok || st.NumFields() == 0 {
		return "", false
	}
	var fs []string
	for i := 0; i < st.NumFields(); i++ {
		so, ok := fx.scalarSort(st.Field(i).Type())
		if !ok {
			return "", false
		}
		if so == SStr {
			fx.needStr()
		}
		fs = append(fs, so)
	}
	name := "K$" + san(typeKey(t))
	if !fx.declared["datatype:"+name] {
		fx.declared["datatype:"+name] = true
		var sel []string
		for i, so := range fs {
			sel = append(sel, fmt.Sprintf("(%s$f%d %s)", name, i, so))
		}
		fx.decls = append(fx.decls, fmt.Sprintf("(declare-datatypes ((%s 0)) (((mk$%s %s))))", name, name, strings.Join(sel, " ")))
	}
	return name, true
}

// keyTerm: a key value as a term of its key sort.
func (fx *fnExec) keyTerm(k SV, t types.Type, ks string) Term {
	if !strings.HasPrefix(ks, "K$") {
		return fx.sc(k, ks)
	}
	switch x := k.(type) {
	case Sc:
		if x.T.So == ks {
			return x.T
		}
	case St:
		st := t.Underlying().(*types.Struct)
		var as []Term
		for i := 0; i < st.NumFields(); i++ {
			so, _ := fx.scalarSort(st.Field(i).Type())
			as = append(as, fx.sc(x.F[i], so))
		}
		return app(ks, "mk$"+ks, as...)
	}
	panic(vcErr("cannot use %T as a key of sort %s", k, ks))
}
