package main

import (
	"fmt"
	"go/types"

	"golang.org/x/tools/go/ssa"
)

// lemmaExec: a pure obligation over spec functions: forall vars. requires ==> ensures.
func (v *Verifier) lemmaExec(l *Lemma) (fx *fnExec, err error) {
	defer func() {
		if r := recover(); r != nil {
			if ve, ok := r.(vcError); ok {
				err = fmt.Errorf("%s", ve.msg)
				return
			}
			panic(r)
		}
	}()
	fx = v.newExec(nil, "lemma."+l.Name, nil, l.Mode)
	fx.st = newState()
	fx.entry = fx.st
	fx.curR = tTrue
	fx.live = true
	fx.cellNames = map[string][]ssa.Value{}
	for _, r := range v.cs.RawSMT {
		fx.decls = append(fx.decls, r)
	}
	fx.initGhosts()
	env := &SpecEnv{fx: fx, cur: fx.st, old: fx.st, names: map[string]SV{}, bound: map[string]SV{}, callee: true}
	for _, qv := range l.Vars {
		so := fx.ghostSort(qv.Type)
		var typ types.Type
		switch qv.Type {
		case "byte":
			so = fx.isort()
			typ = types.Typ[types.Uint8]
			if fx.mode == "bv" {
				so = bvSort(8)
			}
		case "uint64":
			typ = types.Typ[types.Uint64]
			if fx.mode == "bv" {
				so = bvSort(64)
			}
		}
		c := fx.freshConst("lv_"+qv.Name, so)
		if typ != nil {
			fx.rangeFact(c, leaf{"", so, typ})
		}
		env.names[qv.Name] = Sc{c, typ}
		fx.inputConsts = append(fx.inputConsts, c.S)
	}
	for _, a := range l.Uses {
		fx.useAxiom(a)
	}
	for _, c := range l.Requires {
		fx.assume(fx.evalBool(c.E, env))
	}
	fx.obls = append(fx.obls, &Obligation{Name: fx.name + "/vacuity:requires", Kind: "vacuity", Func: fx.name, Mode: fx.mode,
		Prefix: len(fx.assumps), NDecl: -1, Goal: tFalse, Expect: "reach", fx: fx})
	for k, c := range l.Ensures {
		fx.oblige(fmt.Sprintf("lemma%d%s", k+1, lbl(c)), "lemma", fx.evalBool(c.E, env), l.Where, c.Src)
	}
	return fx, nil
}
