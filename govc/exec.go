package main

import (
	"fmt"
	"go/ast"
	"go/token"
	"go/types"
	"math/big"
	"os"
	"os/exec"
	"path/filepath"
	"sort"
	"strings"

	"golang.org/x/tools/go/ssa"
)

type Obligation struct {
	Name   string
	Kind   string
	Func   string
	Mode   string
	Prefix int // number of assumptions visible
	NDecl  int
	Goal   Term
	Where  string
	Src    string
	Expect string // "" (must be unsat when negated) or "reach" (vacuity: must NOT be unsat)
	// results
	Verdict string
	Solver  string
	Time    float64
	Model   string
	fx      *fnExec
	smtFile string
	smtSize int
	Known   *KnownFinding
	Preset  string // "fail": decided by the generator itself (syntactic frame check), with Model as the reason
}

type edge struct {
	from, to *ssa.BasicBlock
	cond     Term
	st       *State
}

type exitRec struct {
	cond Term
	st   *State
	res  SV
}

type loopInfo struct {
	header   *ssa.BasicBlock
	blocks   map[*ssa.BasicBlock]bool
	ordinal  int
	spec     *LoopSpec
	phis     []*ssa.Phi
	headPhis map[*ssa.Phi]SV
	head     *State // state after havoc, for decreases
	pre      *State // state when the loop was reached (before havoc), for entry(...)
	minPos   token.Pos
}

type fnExec struct {
	v         *Verifier
	fn        *ssa.Function
	name      string
	ctr       *FuncContract
	mode      string
	decls     []string
	declared  map[string]bool
	assumps   []string
	obls      []*Obligation
	vals      map[ssa.Value]SV
	nfresh    int
	heapSorts map[string]string

	overflowChecks bool
	safetyChecks   bool

	// current block context
	curR              Term
	sentinels         []string
	sliceData         map[ssa.Value]Sl
	hookFired         map[string]bool
	prevStored        SV
	postsAssumedNoted bool
	preAssumed        bool
	lemmasUsed        map[string]bool
	st                *State
	live              bool
	entry             *State

	paramEntry     map[string]SV
	loops          map[*ssa.BasicBlock]*loopInfo
	inEdges        map[*ssa.BasicBlock][]edge
	exits          []exitRec
	inlining       int
	asyncMods      *modSet
	inlinedHelpers map[string]bool
	oblCount       map[string]int
	sharedMut      map[ssa.Value]bool
	cellNames      map[string][]ssa.Value
	strConsts      map[string]Term
	fltConsts      map[string]Term
	needs          map[string]bool
	usedAxioms     map[string]bool
	unspecCallees  map[string]bool
	externUsed     map[string]bool
	contractsUsed  map[string]bool
	assumedNotes   []string
	ghostTypes     map[string]string
	ranges         map[*ssa.Range]*rangeState
	rangeNames     map[string]*rangeState
	inputConsts    []string
	inputLeaves    []inputLeaf
	tablesUsed     map[string]bool
	replayParams   []*replayParam
	replayTerms    []string
	sliceTables    map[ssa.Value]*sliceTable
	refHeaps       map[string]bool
	havocked       []string
	macros         map[string]bool
	exhaustOnly    bool
	backEdgeFrom   *ssa.BasicBlock
	curCall        *ssa.CallCommon
	exitTag        string
	pruned         int
	caseIdx        int // -1: no case split; k: verifying case k of the contract's `cases`
}

func (fx *fnExec) declare(name, sort string) {
	if fx.declared[name] {
		return
	}
	if strings.Contains(sort, "Str") && !fx.declared["$Str"] {
		fx.needStr()
	}
	if strings.Contains(sort, "Flt") && !fx.declared["$Flt"] {
		fx.needFlt()
	}
	fx.declared[name] = true
	fx.decls = append(fx.decls, fmt.Sprintf("(declare-fun %s () %s)", name, sort))
}
func (fx *fnExec) declareFun(name string, args []string, ret string) {
	if fx.declared[name] {
		return
	}
	all := strings.Join(args, " ") + " " + ret
	if strings.Contains(all, "Str") && !fx.declared["$Str"] {
		fx.rawDecl("$Str", "(declare-sort Str 0)")
	}
	if strings.Contains(all, "Flt") && !fx.declared["$Flt"] {
		fx.rawDecl("$Flt", "(declare-sort Flt 0)")
	}
	fx.declared[name] = true
	fx.decls = append(fx.decls, fmt.Sprintf("(declare-fun %s (%s) %s)", name, strings.Join(args, " "), ret))
}
func (fx *fnExec) rawDecl(key, s string) {
	if fx.declared[key] {
		return
	}
	fx.declared[key] = true
	fx.decls = append(fx.decls, s)
}

func (fx *fnExec) freshConst(hint, sort string) Term {
	fx.nfresh++
	n := fmt.Sprintf("%s!%d", san(hint), fx.nfresh)
	fx.declare(n, sort)
	return Term{n, sort}
}

// assume adds a fact guarded by the current reach condition.
func (fx *fnExec) assume(fact Term) {
	if fact.S == "true" {
		return
	}
	fx.assumeG(fx.curR, fact)
}
func (fx *fnExec) assumeG(g, fact Term) {
	t := tImp(g, fact)
	if t.S == "true" {
		return
	}
	fx.assumps = append(fx.assumps, "(assert "+t.S+")")
}

func (fx *fnExec) oblige(name, kind string, goal Term, where, src string) {
	fx.obligeG(fx.curR, name, kind, goal, where, src)
}

func (fx *fnExec) obligeG(g Term, name, kind string, goal Term, where, src string) {
	if kind == "safety" && !fx.safetyChecks {
		fx.assumeG(g, goal)
		return
	}
	if (kind == "post" || kind == "panics_iff") && fx.ctr != nil && fx.ctr.Opts["posts"] == "assume" {
		// the postconditions are an ASSUMED abstraction of this function (used at its call sites); only its hooks and
		// safety obligations are checked on its body
		if !fx.postsAssumedNoted {
			fx.postsAssumedNoted = true
			fx.assumedNotes = append(fx.assumedNotes, fx.name+": postconditions assumed (opt posts assume), not proved on the body")
		}
		return
	}
	if kind == "pre" && fx.ctr != nil && fx.ctr.Opts["pre"] == "assume" {
		// callee preconditions taken for granted (reported among the assumptions): used where only a frame is claimed
		fx.assumeG(g, goal)
		fx.preAssumed = true
		return
	}
	fx.oblCount[name]++
	full := name
	if kind == "safety" || kind == "overflow" || kind == "pre" || strings.HasPrefix(kind, "site") {
		full = fmt.Sprintf("%s#%d", name, fx.oblCount[name])
	} else if fx.oblCount[name] > 1 {
		full = fmt.Sprintf("%s#%d", name, fx.oblCount[name])
	}
	if kf := fx.v.knownFor(fx.name + "/" + full); kf != nil {
		re, err := parseSpec(kf.Region)
		if err != nil {
			panic(vcErr("known_findings.json: region of %s: %v", kf.Obligation, err))
		}
		region := fx.evalBool(re, fx.entryEnv())
		fx.obls = append(fx.obls, &Obligation{Name: fx.name + "/" + full + "[known-region]", Kind: kind, Func: fx.name, Mode: fx.mode,
			Prefix: len(fx.assumps), NDecl: len(fx.decls), Goal: tImp(tAnd(g, region), goal), Where: where, Src: src + "   [inside known-finding region: " + kf.Region + "]", fx: fx, Known: kf})
		g = tAnd(g, tNot(region))
		src = src + "   [outside known-finding region: " + kf.Region + "]"
	}
	t := tImp(g, goal)
	if t.S != "true" {
		fx.obls = append(fx.obls, &Obligation{Name: fx.name + "/" + full, Kind: kind, Func: fx.name, Mode: fx.mode,
			Prefix: len(fx.assumps), NDecl: len(fx.decls), Goal: t, Where: where, Src: src, fx: fx})
	} else {
		fx.obls = append(fx.obls, &Obligation{Name: fx.name + "/" + full, Kind: kind, Func: fx.name, Mode: fx.mode,
			Prefix: len(fx.assumps), NDecl: len(fx.decls), Goal: tTrue, Where: where, Src: src, fx: fx, Verdict: "trivial"})
	}
	// after asserting, assume
	fx.assumeG(g, goal)
}

func (fx *fnExec) pos(p token.Pos) string {
	if !p.IsValid() {
		return ""
	}
	ps := fx.v.fset.Position(p)
	return fmt.Sprintf("%s:%d", shortPath(ps.Filename), ps.Line)
}

func shortPath(p string) string {
	if i := strings.Index(p, "/pkg/"); i >= 0 {
		return p[i+1:]
	}
	return p
}

// ---- prelude bits needed on demand

func (fx *fnExec) needStr() {
	fx.rawDecl("$Str", "(declare-sort Str 0)")
	fx.declareFun("slen", []string{SStr}, SInt)
	fx.declareFun("sat", []string{SStr, SInt}, SInt)
	fx.declareFun("str.cat", []string{SStr, SStr}, SStr)
	fx.declareFun("str.lt", []string{SStr, SStr}, SBool)
	fx.declareFun("str.of", []string{arrSort(SInt, SInt), SInt, SInt}, SStr)
	fx.declareFun("str.sub", []string{SStr, SInt, SInt}, SStr)
}
func (fx *fnExec) needFlt() {
	fx.rawDecl("$Flt", "(declare-sort Flt 0)")
	for _, f := range []string{"f.add", "f.sub", "f.mul", "f.div"} {
		fx.declareFun(f, []string{SFlt, SFlt}, SFlt)
	}
	fx.declareFun("f.lt", []string{SFlt, SFlt}, SBool)
	fx.declareFun("f.le", []string{SFlt, SFlt}, SBool)
	fx.declareFun("f.neg", []string{SFlt}, SFlt)
	fx.declareFun("f.ofint", []string{SInt}, SFlt)
	fx.declareFun("f.toint", []string{SFlt}, SInt)
}
func (fx *fnExec) needTdiv() {
	fx.rawDecl("$tdiv", "(define-fun tdiv ((a Int) (b Int)) Int (ite (>= a 0) (ite (> b 0) (div a b) (- (div a (- b)))) (ite (> b 0) (- (div (- a) b)) (div (- a) (- b)))))")
	fx.rawDecl("$trem", "(define-fun trem ((a Int) (b Int)) Int (- a (* b (tdiv a b))))")
}
func (fx *fnExec) needPow2() {
	fx.declareFun("pow2", []string{SInt}, SInt)
	if !fx.declared["$pow2ax"] {
		fx.declared["$pow2ax"] = true
		fx.assumps = append(fx.assumps, "(assert (= (pow2 0) 1))", "(assert (forall ((n Int)) (! (=> (> n 0) (= (pow2 n) (* 2 (pow2 (- n 1))))) :pattern ((pow2 n)))))")
	}
}
func (fx *fnExec) needBitFuns() {
	for _, f := range []string{"bit.and", "bit.or", "bit.xor", "bit.andnot"} {
		fx.declareFun(f, []string{SInt, SInt}, SInt)
	}
}

func (fx *fnExec) strConst(s string) Term {
	fx.needStr()
	if t, ok := fx.strConsts[s]; ok {
		return t
	}
	n := fmt.Sprintf("str$%d", len(fx.strConsts))
	fx.declare(n, SStr)
	t := Term{n, SStr}
	// distinct from earlier constants, known length and (short) content
	for _, o := range fx.strConsts {
		fx.assumps = append(fx.assumps, fmt.Sprintf("(assert (not (= %s %s)))", n, o.S))
	}
	fx.strConsts[s] = t
	fx.assumps = append(fx.assumps, fmt.Sprintf("(assert (= (slen %s) %d))", n, len(s)))
	if len(s) <= 64 {
		for i := 0; i < len(s); i++ {
			fx.assumps = append(fx.assumps, fmt.Sprintf("(assert (= (sat %s %d) %d))", n, i, s[i]))
		}
	}
	return t
}
func (fx *fnExec) fltConst(s string) Term {
	fx.needFlt()
	if t, ok := fx.fltConsts[s]; ok {
		return t
	}
	n := fmt.Sprintf("flt$%d", len(fx.fltConsts))
	fx.declare(n, SFlt)
	t := Term{n, SFlt}
	fx.fltConsts[s] = t
	return t
}

// ---- fresh values

// freshSV creates an unconstrained value of type t (with the range facts of its integer leaves).
func (fx *fnExec) freshSV(t types.Type, hint string) SV {
	return fx.build(t, func(l leaf) Term {
		c := fx.freshConst(hint+l.suffix, l.sort)
		fx.rangeFact(c, l)
		return c
	})
}

func (fx *fnExec) rangeFact(c Term, l leaf) {
	if fx.mode == "int" && l.sort == SInt {
		if l.typ != nil {
			if ii, ok := intInfoOf(l.typ); ok {
				fx.assume(inRange(c, ii))
			}
		} else if strings.HasSuffix(l.suffix, "#len") || strings.HasSuffix(l.suffix, "#off") || strings.HasSuffix(l.suffix, "#cap") {
			fx.assume(tAnd(app(SBool, "<=", intLit64(0), c), app(SBool, "<=", c, intLit(pow2(48)))))
		}
	}
}

// wfSlice: 0 <= len <= cap
func (fx *fnExec) wfValue(v SV) {
	switch x := v.(type) {
	case Sl:
		if fx.mode == "int" {
			fx.assume(tAnd(app(SBool, "<=", intLit64(0), x.Off), app(SBool, "<=", intLit64(0), x.Len), app(SBool, "<=", x.Len, x.Cap), app(SBool, "<=", x.Cap, intLit(pow2(48))),
				tImp(tEq(x.Arr, intLit64(0)), tAnd(tEq(x.Len, intLit64(0)), tEq(x.Cap, intLit64(0))))))
		} else {
			fx.assume(app(SBool, "bvule", x.Len, x.Cap))
		}
	case St:
		for _, f := range x.F {
			fx.wfValue(f)
		}
	case Tu:
		for _, f := range x.E {
			fx.wfValue(f)
		}
	}
}

// ---- addresses

func pathSuffix(p []pathEl) string {
	var b strings.Builder
	for _, e := range p {
		if e.Idx != nil {
			b.WriteString("[]")
		} else {
			b.WriteString("." + e.Name)
		}
	}
	return b.String()
}

func (fx *fnExec) cellValue(c ssa.Value) SV {
	if v, ok := fx.st.cells[c]; ok {
		return v
	}
	// lazily created (FreeVar, Global)
	var t types.Type
	switch x := c.(type) {
	case *ssa.FreeVar:
		t = x.Type().(*types.Pointer).Elem()
	case *ssa.Global:
		t = x.Type().(*types.Pointer).Elem()
		if v, ok := fx.v.globalInit(fx, x); ok {
			fx.st.cells[c] = v
			return v
		}
	default:
		panic(vcErr("read of unallocated cell %s", c.Name()))
	}
	if fvv, isFV := c.(*ssa.FreeVar); isFV {
		if _, isSig := t.Underlying().(*types.Signature); isSig {
			if fn := fx.capturedClosure(fvv); fn != nil {
				// a captured function variable assigned once, to a closure of the enclosing function: calls through
				// it are calls of that closure (its captured variables stay unknown here)
				fx.declare("fv$"+san(c.Name())+"$fn", SInt)
				v := FnV{Fn: fn, Ref: Term{"fv$" + san(c.Name()) + "$fn", SInt}}
				fx.st.cells[c] = v
				return v
			}
		}
	}
	saveR := fx.curR
	fx.curR = tTrue
	// deterministic names: the same captured variable / global read lazily in two states denotes the same value
	prefix := "fv$" + san(c.Name())
	if g, isG := c.(*ssa.Global); isG {
		prefix = fmt.Sprintf("gl%d$%s", fx.st.epoch, san(c.Name()))
		if fx.v.errSentinel(g) {
			// sentinel errors (package-level error variables set once from errors.New and never reassigned):
			// one constant each, whatever happened to the heap
			v := Sc{fx.sentinelTerm(g), t}
			fx.st.cells[c] = v
			fx.curR = saveR
			return v
		}
	}
	v := fx.build(t, func(l leaf) Term {
		n := prefix + san(l.suffix)
		first := !fx.declared[n]
		fx.declare(n, l.sort)
		ct := Term{n, l.sort}
		if first {
			fx.rangeFact(ct, l)
		}
		return ct
	})
	if !fx.declared[prefix+"$wf"] {
		fx.declared[prefix+"$wf"] = true
		fx.wfValue(v)
		if fvv, isFV := c.(*ssa.FreeVar); isFV && fx.entry != nil && fx.capturedFinal(fvv) {
			// a captured variable holds what it held when the function was entered: its referents were allocated then
			// (not merely by now) - read lazily, stated about the entry state
			save := fx.st
			fx.st = fx.entry
			fx.assumeAlive(v)
			fx.st = save
		} else {
			fx.assumeAlive(v)
		}
	}
	fx.curR = saveR
	fx.st.cells[c] = v
	if fx.entry != nil {
		if _, ok := fx.entry.cells[c]; !ok {
			fx.entry.cells[c] = v
		}
	}
	return v
}

func (fx *fnExec) walk(v SV, path []pathEl) SV {
	for _, e := range path {
		if e.Idx != nil {
			switch x := v.(type) {
			case Sc:
				_, es, _ := arrParts(x.T.So)
				var et types.Type
				if x.Typ != nil {
					if at, ok := x.Typ.Underlying().(*types.Array); ok {
						et = at.Elem()
					}
				}
				_ = es
				v = Sc{tSel(x.T, *e.Idx), et}
			case St: // array of composites: struct of arrays
				at := x.Typ.Underlying().(*types.Array)
				i := 0
				v = fx.buildFrom(at.Elem(), "", func(string) Term {
					t := tSel(x.F[i].(Sc).T, *e.Idx)
					i++
					return t
				})
			default:
				panic(vcErr("index into %T", v))
			}
			continue
		}
		s, ok := v.(St)
		if !ok {
			panic(vcErr("field %s of non-struct %T", e.Name, v))
		}
		v = s.F[e.Field]
	}
	return v
}

func (fx *fnExec) update(v SV, path []pathEl, nv SV) SV {
	if len(path) == 0 {
		return nv
	}
	e := path[0]
	if e.Idx != nil {
		switch x := v.(type) {
		case Sc:
			inner := fx.walk(v, path[:1])
			ni := fx.update(inner, path[1:], nv)
			_, es, _ := arrParts(x.T.So)
			return Sc{tStore(x.T, *e.Idx, fx.sc(ni, es)), x.Typ}
		case St:
			inner := fx.walk(v, path[:1])
			ni := fx.update(inner, path[1:], nv)
			fl := flatten(ni)
			n := St{Typ: x.Typ}
			for i, f := range x.F {
				n.F = append(n.F, Sc{tStore(f.(Sc).T, *e.Idx, fl[i]), nil})
			}
			return n
		}
		panic(vcErr("index update into %T", v))
	}
	s, ok := v.(St)
	if !ok {
		panic(vcErr("field update of non-struct %T", v))
	}
	n := St{Typ: s.Typ, F: append([]SV{}, s.F...)}
	n.F[e.Field] = fx.update(s.F[e.Field], path[1:], nv)
	return n
}

func (fx *fnExec) load(ad Ad) SV { return fx.loadIn(fx.st, ad, true) }

func (fx *fnExec) loadIn(st *State, ad Ad, facts bool) SV {
	if ad.Cell != nil {
		save := fx.st
		fx.st = st
		v := fx.cellValue(ad.Cell)
		fx.st = save
		return fx.walk(v, ad.Path)
	}
	// split path at first array index
	hp := ad.Path
	var rest []pathEl
	for i, e := range ad.Path {
		if e.Idx != nil {
			hp, rest = ad.Path[:i], ad.Path[i:]
			break
		}
	}
	var typ types.Type = ad.Typ
	if len(rest) > 0 {
		typ = ad.arrTyp(len(hp))
	}
	pre := ad.Heap + pathSuffix(hp)
	v := fx.build(typ, func(l leaf) Term {
		if isRefLeaf(l) {
			fx.refHeaps[pre+l.suffix] = true
		}
		h := fx.heap(st, pre+l.suffix, fx.heapSortFor(ad.Heap, l))
		t := h
		for _, ix := range ad.Idx {
			t = tSel(t, ix)
		}
		if facts || !strings.Contains(t.S, "$q") {
			fx.rangeFact(t, l)
		}
		return t
	})
	if facts || !svMentionsBound(v) {
		fx.wfValue(v)
	}
	if len(rest) > 0 {
		return fx.walk(v, rest)
	}
	return v
}

// arrTyp: type of the object at path prefix n (recomputed from the root type).
func (ad Ad) arrTyp(n int) types.Type { return ad.rootTyps[n] }

func (fx *fnExec) store(ad Ad, v SV) {
	if ad.Cell != nil {
		cur := fx.cellValue(ad.Cell)
		fx.st.cells[ad.Cell] = fx.update(cur, ad.Path, fx.fit(v, ad.Typ))
		return
	}
	hp := ad.Path
	var rest []pathEl
	for i, e := range ad.Path {
		if e.Idx != nil {
			hp, rest = ad.Path[:i], ad.Path[i:]
			break
		}
	}
	v = fx.fit(v, ad.Typ)
	typ := ad.Typ
	if len(rest) > 0 {
		// read-modify-write of the whole array-typed object
		whole := Ad{Heap: ad.Heap, Idx: ad.Idx, Path: hp, Typ: ad.arrTyp(len(hp)), rootTyps: ad.rootTyps}
		cur := fx.loadIn(fx.st, whole, false)
		v = fx.update(cur, rest, v)
		typ = whole.Typ
	}
	pre := ad.Heap + pathSuffix(hp)
	fl := flatten(v)
	for i, l := range fx.leaves(typ) {
		name := pre + l.suffix
		if isRefLeaf(l) {
			fx.refHeaps[name] = true
		}
		h := fx.heap(fx.st, name, fx.heapSortFor(ad.Heap, l))
		var nh Term
		if len(ad.Idx) == 1 {
			nh = tStore(h, ad.Idx[0], fl[i])
		} else {
			nh = tStore(h, ad.Idx[0], tStore(tSel(h, ad.Idx[0]), ad.Idx[1], fl[i]))
		}
		fx.st.heaps[name] = nh
	}
}

// fit adapts literal values to the shape of type t.
func (fx *fnExec) fit(v SV, t types.Type) SV {
	switch x := v.(type) {
	case Lit:
		so, ok := fx.scalarSort(t)
		if !ok {
			panic(vcErr("literal for non-scalar type %s", t))
		}
		return Sc{fx.litTo(x.V, so), t}
	case Sc:
		if _, ok := t.Underlying().(*types.Slice); ok {
			// nil slice
			z := fx.zeroOfSort(fx.isort())
			return Sl{x.T, z, z, z, t.Underlying().(*types.Slice).Elem()}
		}
	}
	return v
}

// ---- value lookup

func (fx *fnExec) val(v ssa.Value) SV {
	switch x := v.(type) {
	case *ssa.Const:
		if x.Value == nil {
			return fx.zero(x.Type())
		}
		return fx.constSV(x.Value, x.Type())
	case *ssa.Global:
		return Ad{Cell: x, Typ: x.Type().(*types.Pointer).Elem()}
	case *ssa.FreeVar:
		if _, isPtr := x.Type().(*types.Pointer); isPtr {
			if _, ok := fx.vals[x]; !ok {
				return Ad{Cell: x, Typ: x.Type().(*types.Pointer).Elem()}
			}
		}
	case *ssa.Function:
		return FnV{Fn: x, Ref: fx.fnRef(x)}
	case *ssa.Builtin:
		return nil
	}
	if r, ok := fx.vals[v]; ok {
		return r
	}
	panic(vcErr("value %s (%T) not computed", v.Name(), v))
}

func (fx *fnExec) fnRef(f *ssa.Function) Term {
	n := "fn$" + san(f.String())
	fx.declare(n, SInt)
	if !fx.declared[n+"$nz"] {
		fx.declared[n+"$nz"] = true
		fx.assumps = append(fx.assumps, fmt.Sprintf("(assert (not (= %s 0)))", n))
	}
	return Term{n, SInt}
}

// ---- cells vs heap objects

func isCellAlloc(a *ssa.Alloc) bool {
	return addrOnlyUses(a, 0)
}

func addrOnlyUses(v ssa.Value, depth int) bool {
	refs := v.Referrers()
	if refs == nil {
		return true
	}
	for _, r := range *refs {
		switch x := r.(type) {
		case *ssa.DebugRef:
		case *ssa.UnOp:
			if x.Op != token.MUL {
				return false
			}
		case *ssa.Store:
			if x.Val == v {
				return false
			}
		case *ssa.FieldAddr:
			if !addrOnlyUses(x, depth+1) {
				return false
			}
		case *ssa.IndexAddr:
			if x.X != v || !addrOnlyUses(x, depth+1) {
				return false
			}
		case *ssa.MakeClosure:
			if depth > 0 {
				return false
			}
		default:
			return false
		}
	}
	return true
}

// isArrayBacking: an Alloc of array type that is sliced (varargs packing, local buffers).
func isArrayBacking(a *ssa.Alloc) bool {
	if _, ok := a.Type().(*types.Pointer).Elem().Underlying().(*types.Array); !ok {
		return false
	}
	for _, r := range *a.Referrers() {
		if _, ok := r.(*ssa.Slice); ok {
			return true
		}
	}
	return false
}

// ---- alive ghost heap

func (fx *fnExec) alive(st *State) Term { return fx.heap(st, "$alive", arrSort(SInt, SBool)) }

func (fx *fnExec) freshRef(hint string) Term {
	r := fx.freshConst(hint, SInt)
	al := fx.alive(fx.st)
	fx.assume(tAnd(app(SBool, ">", r, intLit64(0)), tNot(tSel(al, r))))
	fx.st.heaps["$alive"] = tStore(al, r, tTrue)
	return r
}

func (fx *fnExec) assumeAlive(v SV) {
	al := fx.alive(fx.st)
	var visit func(SV)
	visit = func(v SV) {
		switch x := v.(type) {
		case Sc:
			if x.Typ != nil && x.T.So == SInt {
				switch x.Typ.Underlying().(type) {
				case *types.Pointer, *types.Map, *types.Chan:
					fx.assume(tOr(tEq(x.T, intLit64(0)), tSel(al, x.T)))
				}
			}
		case Sl:
			fx.assume(tOr(tEq(x.Arr, intLit64(0)), tSel(al, x.Arr)))
		case St:
			for _, f := range x.F {
				visit(f)
			}
		case Tu:
			for _, f := range x.E {
				visit(f)
			}
		}
	}
	visit(v)
}

// ---- CFG analysis

func (fx *fnExec) analyzeLoops() error {
	fn := fx.fn
	fx.loops = map[*ssa.BasicBlock]*loopInfo{}
	for _, b := range fn.Blocks {
		for _, s := range b.Succs {
			if s.Dominates(b) {
				li := fx.loops[s]
				if li == nil {
					li = &loopInfo{header: s, blocks: map[*ssa.BasicBlock]bool{s: true}}
					fx.loops[s] = li
				}
				// natural loop: nodes reaching b without passing s
				var stack []*ssa.BasicBlock
				if !li.blocks[b] {
					li.blocks[b] = true
					stack = append(stack, b)
				}
				for len(stack) > 0 {
					n := stack[len(stack)-1]
					stack = stack[:len(stack)-1]
					for _, p := range n.Preds {
						if !li.blocks[p] {
							li.blocks[p] = true
							stack = append(stack, p)
						}
					}
				}
			}
		}
	}
	// irreducibility check: every retreating edge must be a back edge (target dominates source)
	// order loops by source position
	var lis []*loopInfo
	for _, li := range fx.loops {
		li.minPos = token.NoPos
		for b := range li.blocks {
			for _, in := range b.Instrs {
				if _, ok := in.(*ssa.DebugRef); ok {
					continue
				}
				p := in.Pos()
				if p.IsValid() && (li.minPos == token.NoPos || p < li.minPos) {
					li.minPos = p
				}
			}
		}
		lis = append(lis, li)
	}
	// AST loops in preorder
	var astLoops []ast.Node
	if syn := fn.Syntax(); syn != nil {
		var body ast.Node
		switch s := syn.(type) {
		case *ast.FuncDecl:
			body = s.Body
		case *ast.FuncLit:
			body = s.Body
		}
		if body != nil {
			ast.Inspect(body, func(n ast.Node) bool {
				switch n.(type) {
				case *ast.FuncLit:
					return false
				case *ast.ForStmt, *ast.RangeStmt:
					astLoops = append(astLoops, n)
				}
				return true
			})
		}
	}
	// match each CFG loop to the innermost AST loop containing its minPos..; simpler: assign by containment of header positions
	for _, li := range lis {
		best := -1
		for i, al := range astLoops {
			if li.minPos >= al.Pos() && li.minPos < al.End() {
				// innermost that contains all of the loop's positions: choose the outermost AST loop whose body contains minPos but
				// which is not already a strict ancestor of a loop that also contains every block... use: the innermost AST loop
				// containing minPos whose extent also covers the max position of the CFG loop.
				if covers(fx, li, al) {
					best = i
				}
			}
		}
		if best < 0 {
			// fall back: order by position
			continue
		}
		li.ordinal = best + 1
	}
	// fallback / collision repair: sort by (minPos, -size) and assign sequentially if any ordinal missing or duplicated
	seen := map[int]bool{}
	okAll := len(lis) == len(astLoops)
	for _, li := range lis {
		if li.ordinal == 0 || seen[li.ordinal] {
			okAll = false
		}
		seen[li.ordinal] = true
	}
	if !okAll {
		sort.Slice(lis, func(i, j int) bool {
			if lis[i].minPos != lis[j].minPos {
				return lis[i].minPos < lis[j].minPos
			}
			return len(lis[i].blocks) > len(lis[j].blocks)
		})
		for i, li := range lis {
			li.ordinal = i + 1
		}
	}
	fx.remapLoops(lis)
	for _, li := range lis {
		if fx.ctr != nil {
			li.spec = fx.ctr.Loops[li.ordinal]
		}
	}
	if fx.ctr != nil {
		for n := range fx.ctr.Loops {
			found := false
			for _, li := range lis {
				if li.ordinal == n {
					found = true
				}
			}
			if !found {
				return fmt.Errorf("contract names loop %d but the function has %d loops", n, len(lis))
			}
		}
	}
	return nil
}

func covers(fx *fnExec, li *loopInfo, al ast.Node) bool {
	for b := range li.blocks {
		for _, in := range b.Instrs {
			if _, ok := in.(*ssa.DebugRef); ok {
				continue
			}
			p := in.Pos()
			if p.IsValid() && (p < al.Pos() || p >= al.End()) {
				return false
			}
		}
	}
	return true
}

// topological order ignoring back edges
func (fx *fnExec) blockOrder() []*ssa.BasicBlock {
	var order []*ssa.BasicBlock
	seen := map[*ssa.BasicBlock]bool{}
	var dfs func(b *ssa.BasicBlock)
	dfs = func(b *ssa.BasicBlock) {
		seen[b] = true
		for _, s := range b.Succs {
			if s.Dominates(b) { // back edge
				continue
			}
			if !seen[s] {
				dfs(s)
			}
		}
		order = append(order, b)
	}
	dfs(fx.fn.Blocks[0])
	for i, j := 0, len(order)-1; i < j; i, j = i+1, j-1 {
		order[i], order[j] = order[j], order[i]
	}
	return order
}

// ---- merging

func (fx *fnExec) mergeSV(vs []SV, conds []Term, hint string) SV {
	allSame := true
	for i := 1; i < len(vs); i++ {
		if !svEqualSyntactic(vs[0], vs[i]) {
			allSame = false
			break
		}
	}
	if allSame {
		return vs[0]
	}
	fls := make([][]Term, len(vs))
	for i, v := range vs {
		if l, ok := v.(Lit); ok {
			// find a non-literal sibling for the sort
			so := fx.isort()
			for _, o := range vs {
				if s, ok := o.(Sc); ok {
					so = s.T.So
				}
			}
			vs[i] = Sc{fx.litTo(l.V, so), nil}
		}
		fls[i] = flatten(vs[i])
	}
	n := len(fls[0])
	for _, f := range fls {
		if len(f) != n {
			panic(vcErr("merge of differently shaped values (%s)", hint))
		}
	}
	out := make([]Term, n)
	for k := 0; k < n; k++ {
		same := true
		for i := 1; i < len(fls); i++ {
			if fls[i][k].S != fls[0][k].S {
				same = false
			}
		}
		if same {
			out[k] = fls[0][k]
			continue
		}
		for i := range fls {
			if fls[i][k].So != fls[0][k].So {
				panic(vcErr("merge sort mismatch %s vs %s (%s)", fls[i][k].So, fls[0][k].So, hint))
			}
		}
		if false && strings.HasPrefix(fls[0][k].So, "(Array") {
			// arrays (heaps): a definitional ite avoids guarded array equalities, which drag the solver into extensionality
			fx.nfresh++
			name := fmt.Sprintf("%s!%d", san("m_"+hint), fx.nfresh)
			body := fls[len(fls)-1][k]
			for i := len(fls) - 2; i >= 0; i-- {
				body = tIte(conds[i], fls[i][k], body)
			}
			fx.declared[name] = true
			fx.decls = append(fx.decls, fmt.Sprintf("(define-fun %s () %s %s)", name, body.So, body.S))
			fx.macros[name] = true
			out[k] = Term{name, body.So}
			continue
		}
		c := fx.freshConst("m_"+hint, fls[0][k].So)
		for i := range fls {
			fx.assumeG(conds[i], tEq(c, fls[i][k]))
		}
		out[k] = c
	}
	// shape template: prefer a non-FnV
	tmpl := vs[0]
	r, _ := rebuild(tmpl, out)
	return r
}

func (fx *fnExec) mergeStates(es []edge) *State {
	if len(es) == 1 {
		return es[0].st.clone()
	}
	conds := make([]Term, len(es))
	for i, e := range es {
		conds[i] = e.cond
	}
	n := newState()
	maxEpoch := 0
	for _, e := range es {
		if e.st.epoch > maxEpoch {
			maxEpoch = e.st.epoch
		}
	}
	n.epoch = maxEpoch
	for _, e := range es {
		for k, v := range e.st.pending {
			if v > n.pending[k] {
				n.pending[k] = v
			}
		}
	}
	// deferred calls: union, each guarded by the paths on which its defer statement ran
	var dorder []*ssa.Defer
	dguard := map[*ssa.Defer][]Term{}
	for _, e := range es {
		for _, dr := range e.st.defers {
			if _, ok := dguard[dr.d]; !ok {
				dorder = append(dorder, dr.d)
			}
			dguard[dr.d] = append(dguard[dr.d], tAnd(e.cond, dr.guard))
		}
	}
	for _, d := range dorder {
		allPaths := len(dguard[d]) == len(es)
		g := tOr(dguard[d]...)
		if allPaths {
			unconditional := true
			for _, e := range es {
				for _, dr := range e.st.defers {
					if dr.d == d && dr.guard.S != "true" {
						unconditional = false
					}
				}
			}
			if unconditional {
				g = tTrue
			}
		}
		n.defers = append(n.defers, deferRec{d, g})
	}
	// cells
	keys := map[ssa.Value]bool{}
	for _, e := range es {
		for k := range e.st.cells {
			keys[k] = true
		}
	}
	for _, k := range sortedValues(keys) {
		var vs []SV
		var cs []Term
		for _, e := range es {
			if v, ok := e.st.cells[k]; ok {
				vs = append(vs, v)
				cs = append(cs, e.cond)
			}
		}
		n.cells[k] = fx.mergeSV(vs, cs, "c_"+k.Name())
	}
	hk := map[string]bool{}
	for _, e := range es {
		for k := range e.st.heaps {
			hk[k] = true
		}
	}
	for _, k := range sortedKeys(hk) {
		var vs []SV
		for _, e := range es {
			vs = append(vs, Sc{fx.heap(e.st, k, fx.heapSorts[k]), nil})
		}
		n.heaps[k] = fx.mergeSV(vs, conds, "h").(Sc).T
	}
	gk := map[string]bool{}
	for _, e := range es {
		for k := range e.st.ghost {
			gk[k] = true
		}
	}
	for _, k := range sortedKeys(gk) {
		var vs []SV
		var cs []Term
		for _, e := range es {
			if v, ok := e.st.ghost[k]; ok {
				vs = append(vs, v)
				cs = append(cs, e.cond)
			}
		}
		n.ghost[k] = fx.mergeSV(vs, cs, "g_"+k)
	}
	return n
}

// ---- main driver

func (fx *fnExec) run() (err error) {
	defer func() {
		if r := recover(); r != nil {
			if ve, ok := r.(vcError); ok {
				err = fmt.Errorf("%s: %s", fx.name, ve.msg)
				return
			}
			panic(r)
		}
	}()
	fn := fx.fn
	if len(fn.Blocks) == 0 {
		return fmt.Errorf("%s: function has no body", fx.name)
	}
	if err := fx.analyzeLoops(); err != nil {
		return fmt.Errorf("%s: %v", fx.name, err)
	}
	fx.cellNames = map[string][]ssa.Value{}
	for _, b := range fn.Blocks {
		for _, in := range b.Instrs {
			if a, ok := in.(*ssa.Alloc); ok && a.Comment != "" {
				fx.cellNames[a.Comment] = append(fx.cellNames[a.Comment], a)
				if cn := fx.v.contractName(fn, a.Comment); cn != a.Comment {
					fx.cellNames[cn] = append(fx.cellNames[cn], a)
				}
			}
		}
	}
	for _, fv := range fn.FreeVars {
		fx.cellNames[fv.Name()] = append(fx.cellNames[fv.Name()], fv)
		if cn := fx.v.contractName(fn, fv.Name()); cn != fv.Name() {
			fx.cellNames[cn] = append(fx.cellNames[cn], fv)
		}
	}
	fx.st = newState()
	fx.curR = tTrue
	fx.live = true
	fx.entry = fx.st
	// raw SMT prelude, declared functions
	for _, r := range fx.v.cs.RawSMT {
		fx.decls = append(fx.decls, r)
	}
	// parameters
	fx.paramEntry = map[string]SV{}
	for i, p := range fn.Params {
		v := fx.freshSV(p.Type(), "p_"+p.Name())
		// case split on a boolean parameter: specialise the parameter itself, so that dead branches vanish from the VC
		if fx.ctr != nil && fx.caseIdx >= 0 && fx.caseIdx < len(fx.ctr.Cases) {
			switch ce := fx.ctr.Cases[fx.caseIdx].E.(type) {
			case EIdent:
				if ce.Name == p.Name() || ce.Name == fx.v.contractName(fn, p.Name()) {
					if sc, ok := v.(Sc); ok && sc.T.So == SBool {
						fx.assumps = append(fx.assumps, "(assert "+sc.T.S+")")
						v = Sc{tTrue, sc.Typ}
					}
				}
			case EUn:
				if id, ok := ce.X.(EIdent); ok && ce.Op == "!" && (id.Name == p.Name() || id.Name == fx.v.contractName(fn, p.Name())) {
					if sc, ok := v.(Sc); ok && sc.T.So == SBool {
						fx.assumps = append(fx.assumps, "(assert (not "+sc.T.S+"))")
						v = Sc{tFalse, sc.Typ}
					}
				}
			}
		}
		for li, t := range flatten(v) {
			fx.inputConsts = append(fx.inputConsts, t.S)
			ls := fx.leaves(p.Type())
			fx.inputLeaves = append(fx.inputLeaves, inputLeaf{Const: t.S, Param: i, Sort: t.So, Typ: ls[li].typ})
		}
		fx.wfValue(v)
		fx.assumeAlive(v)
		fx.vals[p] = v
		fx.paramEntry[p.Name()] = v
		fx.paramEntry[fx.v.contractName(fn, p.Name())] = v
		fx.paramEntry[fmt.Sprintf("arg%d", i)] = v
	}
	// free variables that are not pointers (captured by value: rare)
	for _, fv := range fn.FreeVars {
		if _, isPtr := fv.Type().(*types.Pointer); !isPtr {
			v := fx.freshSV(fv.Type(), "fv_"+fv.Name())
			fx.vals[fv] = v
		}
	}
	// declare the heaps of the types in the signature up front, so that frames and havocs name them
	seenT := map[string]bool{}
	for _, p := range fn.Params {
		fx.touchType(p.Type(), seenT, 0)
	}
	for i := 0; i < fn.Signature.Results().Len(); i++ {
		fx.touchType(fn.Signature.Results().At(i).Type(), seenT, 0)
	}
	// ghost variables
	fx.initGhosts()
	fx.recordReplayTerms()
	fx.entry = fx.st.clone()
	// axioms used
	if fx.ctr != nil {
		for _, a := range fx.ctr.Uses {
			fx.useAxiom(a)
		}
		env := fx.entryEnv()
		for _, c := range fx.ctr.Requires {
			if !c.inMode(fx.mode) {
				continue
			}
			fx.assume(fx.evalClause(c, env))
		}
		if len(fx.ctr.Cases) > 0 && fx.caseIdx >= 0 {
			fx.assume(fx.evalBool(fx.ctr.Cases[fx.caseIdx].E, env))
		} else if len(fx.ctr.Cases) > 0 {
			// exhaustiveness of the case split
			var cs []Term
			for _, c := range fx.ctr.Cases {
				cs = append(cs, fx.evalBool(c.E, env))
			}
			fx.oblige("cases:exhaustive", "post", tOr(cs...), fx.ctr.Where, "case split covers all inputs")
		}
		for _, c := range fx.ctr.Assumes {
			if !c.inMode(fx.mode) {
				continue
			}
			fx.assume(fx.evalBool(c.E, env))
			fx.assumedNotes = append(fx.assumedNotes, fmt.Sprintf("%s: assume %s", fx.name, c.Src))
		}
	}
	fx.entry = fx.st.clone()
	// vacuity: preconditions satisfiable
	fx.obls = append(fx.obls, &Obligation{Name: fx.name + "/vacuity:requires", Kind: "vacuity", Func: fx.name, Mode: fx.mode,
		Prefix: len(fx.assumps), NDecl: -1, Goal: tFalse, Expect: "reach", fx: fx})

	fx.collectAsyncMods()
	fx.checkFrame()
	order := fx.blockOrder()
	fx.inEdges = map[*ssa.BasicBlock][]edge{}
	for _, b := range order {
		var st *State
		var R Term
		if b == fn.Blocks[0] {
			st = fx.st
			R = tTrue
		} else {
			es := fx.inEdges[b]
			if len(es) == 0 {
				continue
			}
			rc := fx.freshConst(fmt.Sprintf("R%d", b.Index), SBool)
			var cs []Term
			for _, e := range es {
				cs = append(cs, e.cond)
			}
			fx.assumps = append(fx.assumps, "(assert (= "+rc.S+" "+tOr(cs...).S+"))")
			R = rc
			fx.curR = R
			st = fx.mergeStates(es)
			// phi nodes
			for _, in := range b.Instrs {
				phi, ok := in.(*ssa.Phi)
				if !ok {
					break
				}
				var vs []SV
				var pcs []Term
				for _, e := range es {
					for pi, p := range b.Preds {
						if p == e.from {
							save := fx.st
							fx.st = e.st
							vs = append(vs, fx.fit(fx.val(phi.Edges[pi]), phi.Type()))
							fx.st = save
							pcs = append(pcs, e.cond)
							break
						}
					}
				}
				fx.vals[phi] = fx.mergeSV(vs, pcs, "phi")
			}
		}
		fx.st = st
		fx.curR = R
		fx.live = true
		if li := fx.loops[b]; li != nil {
			fx.cutLoop(li)
		}
		fx.execBlock(b)
	}
	fx.finish()
	return nil
}

func (fx *fnExec) addEdge(from, to *ssa.BasicBlock, cond Term) {
	if cond.S == "false" {
		return
	}
	if to.Dominates(from) {
		// back edge
		li := fx.loops[to]
		fx.backEdgeFrom = from
		fx.checkBackEdge(li, cond)
		fx.backEdgeFrom = nil
		return
	}
	if fx.ctr != nil && fx.ctr.Opts["prune"] == "on" && fx.infeasible(cond) {
		fx.pruned++
		return
	}
	fx.inEdges[to] = append(fx.inEdges[to], edge{from, to, cond, fx.st.clone()})
}

func (fx *fnExec) execBlock(b *ssa.BasicBlock) {
	for _, in := range b.Instrs {
		if !fx.live {
			return
		}
		fx.execInstr(in)
	}
}

// ---- loops

type modSet struct {
	cells  map[ssa.Value]bool
	heaps  map[string]bool // exact heap names or prefixes ending with '*'
	ghosts map[string]bool
	all    bool
}

func newModSet() *modSet {
	return &modSet{cells: map[ssa.Value]bool{}, heaps: map[string]bool{}, ghosts: map[string]bool{}}
}

func (fx *fnExec) cutLoop(li *loopInfo) {
	where := fx.pos(li.minPos)
	li.pre = fx.st.clone()
	// SSA phi nodes of the header (range indices and other compiler temporaries that change per iteration):
	// their entry value comes from the forward edges; they are havocked like any variable assigned in the loop.
	// Invariants name them phi<loop>_<k> (k-th phi of the header).
	li.phis = nil
	for _, in := range li.header.Instrs {
		if phi, ok := in.(*ssa.Phi); ok {
			li.phis = append(li.phis, phi)
		} else {
			break
		}
	}
	env := fx.curEnv()
	env.loopPre = li.pre
	fx.bindPhis(env, li, nil)
	lname := fmt.Sprintf("loop%d", li.ordinal)
	if li.spec != nil {
		for k, c := range li.spec.Invs {
			if !c.inMode(fx.mode) {
				continue
			}
			fx.oblige(fmt.Sprintf("%s.inv%d%s:entry", lname, k+1, lbl(c)), "loop.inv", fx.evalBool(c.E, env), where, c.Src)
		}
	}
	// havoc
	ms := fx.loopMods(li)
	fx.havoc(ms, lname)
	for k, phi := range li.phis {
		nv := fx.freshSV(phi.Type(), fmt.Sprintf("%s_phi%d", lname, k+1))
		fx.wfValue(nv)
		fx.vals[phi] = nv
	}
	li.headPhis = map[*ssa.Phi]SV{}
	for _, phi := range li.phis {
		li.headPhis[phi] = fx.vals[phi]
	}
	// go/ssa lowers `for i := range slice` to a hidden counter that starts at -1 and is only ever incremented by
	// one in the loop header: it is never below -1 (structural fact, checked on the SSA: see rangeIndexCell)
	if ri := rangeIndexCell(li); ri != nil && fx.mode != "bv" {
		if v, ok := fx.st.cells[ri]; ok {
			if sc, isSc := v.(Sc); isSc {
				fx.assume(app(SBool, "<=", intLit64(-1), sc.T))
				// ... and it is below the length it is compared with (the back edge is taken only under that test)
				for _, in := range li.header.Instrs {
					if bo, isB := in.(*ssa.BinOp); isB && bo.Op == token.LSS {
						if inc, isInc := bo.X.(*ssa.BinOp); isInc && inc.Op == token.ADD {
							if ld, isL := inc.X.(*ssa.UnOp); isL && ld.X == ssa.Value(ri) {
								yc, isCall := bo.Y.(*ssa.Call)
								if !isCall {
									continue
								}
								if bi, isBi := yc.Call.Value.(*ssa.Builtin); !isBi || bi.Name() != "len" {
									continue
								}
								if yv, okY := fx.vals[bo.Y]; okY {
									if ysc, isY := yv.(Sc); isY && ysc.T.So == SInt {
										fx.assume(app(SBool, "<", sc.T, ysc.T))
									}
								}
							}
						}
					}
				}
			}
		}
	}
	li.head = fx.st.clone()
	env = fx.curEnv()
	env.loopPre = li.pre
	fx.bindPhis(env, li, nil)
	if li.spec != nil {
		for _, c := range li.spec.Invs {
			if !c.inMode(fx.mode) {
				continue
			}
			fx.assume(fx.evalBool(c.E, env))
		}
	}
	// vacuity: loop head reachable with invariant
	fx.obls = append(fx.obls, &Obligation{Name: fx.name + "/vacuity:" + lname, Kind: "vacuity", Func: fx.name, Mode: fx.mode,
		Prefix: len(fx.assumps), NDecl: -1, Goal: tNot(fx.curR), Expect: "reach", fx: fx})
}

func lbl(c Clause) string {
	if c.Label != "" {
		return ":" + c.Label
	}
	return ""
}

func (fx *fnExec) checkBackEdge(li *loopInfo, cond Term) {
	if li == nil {
		panic(vcErr("back edge to a block that is not a loop header"))
	}
	where := fx.pos(li.minPos)
	lname := fmt.Sprintf("loop%d", li.ordinal)
	env := fx.curEnv()
	env.loopPre = li.pre
	fx.bindPhis(env, li, fx.backEdgeFrom)
	saveR := fx.curR
	fx.curR = cond
	if li.spec != nil {
		for k, c := range li.spec.Invs {
			if !c.inMode(fx.mode) {
				continue
			}
			fx.oblige(fmt.Sprintf("%s.inv%d%s:preserved", lname, k+1, lbl(c)), "loop.inv", fx.evalBool(c.E, env), where, c.Src)
		}
		if d := li.spec.Decreases; d != nil {
			now := fx.sc(fx.evalSpec(d.E, env), "")
			henv := fx.envFor(li.head)
			for k, phi := range li.phis {
				henv.names[fmt.Sprintf("phi%d_%d", li.ordinal, k+1)] = li.headPhis[phi]
			}
			before := fx.sc(fx.evalSpec(d.E, henv), "")
			var g Term
			if fx.mode == "bv" {
				g = app(SBool, "bvult", now, before)
			} else {
				g = tAnd(app(SBool, "<=", intLit64(0), before), app(SBool, "<", now, before))
			}
			fx.oblige(lname+".decreases", "loop.decreases", g, where, d.Src)
		}
	}
	fx.curR = saveR
}

func (fx *fnExec) havoc(ms *modSet, hint string) {
	if ms.all {
		fx.st.epoch = fx.v.nextEpoch()
		alive := fx.st.heaps["$alive"]
		fx.st.heaps = map[string]Term{}
		fx.st.pending = map[string]int{}
		if alive.S != "" {
			// allocation only grows
			na := fx.heap(fx.st, "$alive", arrSort(SInt, SBool))
			fx.assumps = append(fx.assumps, fmt.Sprintf("(assert (forall ((r Int)) (=> (select %s r) (select %s r))))", alive.S, na.S))
		}
	}
	var newCells []SV
	for _, c := range sortedValues(ms.cells) {
		if old, ok := fx.st.cells[c]; ok {
			var t types.Type
			switch x := c.(type) {
			case *ssa.Alloc:
				t = x.Type().(*types.Pointer).Elem()
			case *ssa.FreeVar:
				t = x.Type().(*types.Pointer).Elem()
			case *ssa.Global:
				t = x.Type().(*types.Pointer).Elem()
			}
			_ = old
			nv := fx.freshSV(t, hint+"_"+c.Name())
			fx.wfValue(nv)
			fx.st.cells[c] = nv
			newCells = append(newCells, nv)
		} else if _, isAlloc := c.(*ssa.Alloc); !isAlloc {
			delete(fx.st.cells, c)
		}
	}
	if !ms.all {
		for _, h := range sortedKeys(ms.heaps) {
			if strings.HasSuffix(h, "*") {
				pre := strings.TrimSuffix(h, "*")
				for _, k := range sortedKeys(fx.st.heaps) {
					if strings.HasPrefix(k, pre) {
						fx.havocHeap(k)
					}
				}
				fx.st.pending[h] = fx.v.nextEpoch()
				continue
			}
			fx.havocHeap(h)
		}
	}
	for _, h := range fx.havocked {
		if fx.refHeaps[h] {
			fx.closure(fx.st.heaps[h], fx.alive(fx.st))
		}
	}
	fx.havocked = nil
	// typed memory: a reference held in a variable is nil or allocated (in the allocation state after the havoc)
	for _, nv := range newCells {
		fx.assumeAlive(nv)
	}
	for _, g := range sortedKeys(ms.ghosts) {
		if old, ok := fx.st.ghost[g]; ok {
			fl := flatten(old)
			nf := make([]Term, len(fl))
			for i, t := range fl {
				nf[i] = fx.freshConst(hint+"_g_"+g, t.So)
			}
			nv, _ := rebuild(old, nf)
			fx.st.ghost[g] = nv
			if fx.ghostTypes[g] == "RefBoolMap" {
				gt := nv.(Sc).T
				fx.assumps = append(fx.assumps, fmt.Sprintf("(assert (forall ((r$q Int)) (! (=> (select %s r$q) (select %s r$q)) :pattern ((select %s r$q)))))", gt.S, fx.alive(fx.st).S, gt.S))
			}
		}
	}
}

func (fx *fnExec) havocHeap(name string) {
	so, ok := fx.heapSorts[name]
	if !ok {
		// never touched so far: make sure a later first touch gets a new name
		fx.st.pending[name] = fx.v.nextEpoch()
		return
	}
	if name == "$alive" {
		old := fx.alive(fx.st)
		n := fx.freshConst("alive", so)
		fx.assumps = append(fx.assumps, fmt.Sprintf("(assert (forall ((r Int)) (=> (select %s r) (select %s r))))", old.S, n.S))
		fx.st.heaps[name] = n
		return
	}
	fx.st.heaps[name] = fx.freshConst("hv_"+name, so)
	fx.havocked = append(fx.havocked, name)
}

func (fx *fnExec) finish() {
	fx.checkHooksBound()
	// join exits
	if len(fx.exits) == 0 {
		return
	}
	if fx.ctr != nil && fx.ctr.Opts["exits"] == "separate" && len(fx.exits) > 1 {
		// postconditions are checked at every return site on its own state (no merged exit state)
		all := fx.exits
		var cs []Term
		for _, x := range all {
			cs = append(cs, x.cond)
		}
		for i, x := range all {
			fx.exits = []exitRec{x}
			fx.exitTag = fmt.Sprintf("@ret%d", i+1)
			fx.finishOne()
		}
		fx.exitTag = ""
		return
	}
	fx.finishOne()
}

func (fx *fnExec) finishOne() {
	var es []edge
	var rs []SV
	var cs []Term
	for _, x := range fx.exits {
		es = append(es, edge{cond: x.cond, st: x.st})
		if x.res != nil {
			rs = append(rs, x.res)
		}
		cs = append(cs, x.cond)
	}
	rc := fx.freshConst("Rexit", SBool)
	fx.assumps = append(fx.assumps, "(assert (= "+rc.S+" "+tOr(cs...).S+"))")
	fx.curR = rc
	fx.st = fx.mergeStates(es)
	var res SV
	if len(rs) > 0 {
		res = fx.mergeSV(rs, cs, "result")
	}
	where := fx.pos(fx.fn.Pos())
	// exit reachable (vacuity)
	fx.obls = append(fx.obls, &Obligation{Name: fx.name + "/vacuity:exit" + fx.exitTag, Kind: "vacuity", Func: fx.name, Mode: fx.mode,
		Prefix: len(fx.assumps), NDecl: -1, Goal: tNot(rc), Expect: "reach", fx: fx})
	if fx.ctr == nil {
		return
	}
	env := fx.exitEnv(res)
	fx.runHooks("return", "", env, where)
	if p := fx.ctr.PanicsIff; p != nil && p.inMode(fx.mode) {
		fx.oblige("panics_iff:return"+fx.exitTag, "panics_iff", tNot(fx.evalClause(*p, fx.entryEnv())), where, "normal return ==> !("+p.Src+")")
	}
	for _, a := range fx.ctr.Asserts {
		if a.At == "return" && a.C.inMode(fx.mode) {
			fx.oblige("assert"+lbl(a.C)+fx.exitTag, "assert", fx.evalBool(a.C.E, env), where, a.C.Src)
		}
	}
	for k, c := range fx.ctr.Ensures {
		if !c.inMode(fx.mode) {
			continue
		}
		goal := fx.evalClause(c, env)
		if sp := fx.ctr.Split; sp != nil {
			pv, ok := fx.paramEntry[sp.Var]
			if !ok {
				panic(vcErr("split: no parameter %s", sp.Var))
			}
			pt := fx.sc(pv, "")
			saveR := fx.curR
			var outside []Term
			for val := sp.Lo; val <= sp.Hi; val++ {
				eq := tEq(pt, fx.litTo(big.NewInt(int64(val)), pt.So))
				outside = append(outside, tNot(eq))
				fx.obls = append(fx.obls, &Obligation{Name: fmt.Sprintf("%s/post%d%s[%s=%d]", fx.name, k+1, lbl(c), sp.Var, val), Kind: "post", Func: fx.name, Mode: fx.mode,
					Prefix: len(fx.assumps), NDecl: len(fx.decls), Goal: tImp(tAnd(saveR, eq), goal), Where: where, Src: c.Src, fx: fx})
			}
			fx.obls = append(fx.obls, &Obligation{Name: fmt.Sprintf("%s/post%d%s[%s outside %d..%d]", fx.name, k+1, lbl(c), sp.Var, sp.Lo, sp.Hi), Kind: "post", Func: fx.name, Mode: fx.mode,
				Prefix: len(fx.assumps), NDecl: len(fx.decls), Goal: tImp(tAnd(append([]Term{saveR}, outside...)...), goal), Where: where, Src: c.Src, fx: fx})
			fx.assume(goal)
			continue
		}
		fx.oblige(fmt.Sprintf("post%d%s%s", k+1, lbl(c), fx.exitTag), "post", goal, where, c.Src)
	}
}

func (fx *fnExec) panicSite(where, what string) {
	if fx.ctr != nil && fx.ctr.PanicsIff != nil && fx.ctr.PanicsIff.inMode(fx.mode) {
		p := fx.ctr.PanicsIff
		fx.oblige("panics_iff:site", "site.panics_iff", fx.evalClause(*p, fx.entryEnv()), where, what+" ==> "+p.Src)
	} else if fx.ctr != nil && fx.ctr.MayPanic {
	} else {
		fx.oblige("safety:panic", "safety", tFalse, where, what+" unreachable")
	}
	fx.live = false
}

var _ = big.NewInt

func svMentionsBound(v SV) bool {
	for _, t := range flatten(v) {
		if strings.Contains(t.S, "$q") {
			return true
		}
	}
	return false
}

func sortedValues(m map[ssa.Value]bool) []ssa.Value {
	var ks []ssa.Value
	for k := range m {
		ks = append(ks, k)
	}
	sort.Slice(ks, func(i, j int) bool {
		a, b := ks[i], ks[j]
		if a.Name() != b.Name() {
			if len(a.Name()) != len(b.Name()) {
				return len(a.Name()) < len(b.Name())
			}
			return a.Name() < b.Name()
		}
		return a.Pos() < b.Pos()
	})
	return ks
}

// checkFrame: a declared `modifies` clause must cover everything the body (transitively, through callee
// contracts or bodies) may write.  Decided syntactically over the SSA.
func (fx *fnExec) checkFrame() {
	if fx.ctr == nil || (!fx.ctr.ModSet && !fx.ctr.Pure) {
		return
	}
	if fx.ctr.Opts["frame"] == "assume" {
		// the declared frame is taken for granted (bodies that call into C): reported as an assumption
		fx.assumedNotes = append(fx.assumedNotes, fx.name+": declared frame (modifies "+strings.Join(fx.ctr.Modifies, ", ")+") is assumed, not checked")
		return
	}
	ms := newModSet()
	fx.v.inferMods(fx.fn, ms, map[*ssa.Function]bool{})
	covered := func(p string) bool {
		if p == "$alive" {
			return true
		}
		pp := strings.TrimSuffix(p, "*")
		for _, d := range fx.ctr.Modifies {
			if (d == "all" && !strings.HasPrefix(p, "captured.")) || d == p || d == pp {
				return true
			}
			if strings.HasSuffix(d, "*") && strings.HasPrefix(pp, strings.TrimSuffix(d, "*")) {
				return true
			}
		}
		return false
	}
	var bad []string
	if ms.all && !covered("all") {
		bad = append(bad, "an unspecified callee may write anything")
	}
	for _, h := range sortedKeys(ms.heaps) {
		if !covered(h) {
			bad = append(bad, h)
		}
	}
	for _, c := range sortedValues(ms.cells) {
		if g, ok := c.(*ssa.Global); ok && !covered("global."+g.Name()) {
			bad = append(bad, "global."+g.Name())
		}
	}
	// a closure that assigns a variable it captured carries state from one call to the next
	for _, fv := range fx.fn.FreeVars {
		if closureStores(fx.fn, fv, map[*ssa.Function]bool{}) && !covered("captured."+fv.Name()) {
			bad = append(bad, "captured."+fv.Name())
		}
	}
	o := &Obligation{Name: fx.name + "/frame", Kind: "frame", Func: fx.name, Mode: fx.mode, Prefix: 0, Goal: tTrue,
		Where: fx.ctr.Where, Src: "modifies " + strings.Join(fx.ctr.Modifies, ", "), fx: fx}
	if len(bad) == 0 {
		o.Verdict = "trivial"
	} else {
		o.Preset = "fail"
		o.Model = "the body may write outside the declared frame: " + strings.Join(bad, ", ")
	}
	fx.obls = append(fx.obls, o)
}

// touchType declares (in the current state) the heaps that hold values of type t reachable through pointers and slices.
func (fx *fnExec) touchType(t types.Type, seen map[string]bool, depth int) {
	if depth > 3 {
		return
	}
	defer func() {
		if r := recover(); r != nil {
			if _, ok := r.(vcError); !ok {
				panic(r)
			}
		}
	}()
	switch u := t.Underlying().(type) {
	case *types.Pointer:
		et := u.Elem()
		key := "F." + typeKey(et)
		if seen[key] {
			return
		}
		seen[key] = true
		if _, isStruct := et.Underlying().(*types.Struct); !isStruct {
			return
		}
		for _, l := range fx.leaves(et) {
			if isRefLeaf(l) {
				fx.refHeaps[key+l.suffix] = true
			}
			fx.heap(fx.st, key+l.suffix, fx.heapSortFor("F.", l))
		}
		st := et.Underlying().(*types.Struct)
		for i := 0; i < st.NumFields(); i++ {
			fx.touchType(st.Field(i).Type(), seen, depth+1)
		}
	case *types.Slice:
		key := "E." + typeKey(u.Elem())
		if seen[key] {
			return
		}
		seen[key] = true
		for _, l := range fx.leaves(u.Elem()) {
			if isRefLeaf(l) {
				fx.refHeaps[key+l.suffix] = true
			}
			fx.heap(fx.st, key+l.suffix, fx.heapSortFor("E.", l))
		}
		fx.touchType(u.Elem(), seen, depth+1)
	case *types.Struct:
		for i := 0; i < u.NumFields(); i++ {
			fx.touchType(u.Field(i).Type(), seen, depth+1)
		}
	}
}

// infeasible asks the solver (briefly) whether a branch condition contradicts what is known on this path; an
// infeasible edge is dropped from the VC.  Dropping only infeasible edges is sound; `unknown` keeps the edge.
func (fx *fnExec) infeasible(cond Term) bool {
	o := &Obligation{Name: fx.name + "/prune", Prefix: len(fx.assumps), Goal: tNot(cond), fx: fx}
	dir := os.TempDir()
	file := filepath.Join(dir, fmt.Sprintf("govc_prune_%d_%x.smt2", os.Getpid(), hashStr(fx.name+cond.S+fmt.Sprint(len(fx.assumps)))))
	os.WriteFile(file, []byte(o.smt(false)), 0o644)
	defer os.Remove(file)
	cmd := exec.Command("z3-new", "-t:300", "smt.array.extensional=false", file)
	out, _ := cmd.CombinedOutput()
	for _, ln := range strings.Split(string(out), "\n") {
		ln = strings.TrimSpace(ln)
		if ln == "" || strings.HasPrefix(ln, "WARNING") {
			continue
		}
		return ln == "unsat"
	}
	return false
}

// bindPhis makes the header phis of a loop visible to its invariants as phi<loop>_<k>.  from == nil: the value the
// phi has at the loop head (entry value before the cut, havocked value after); otherwise the value flowing in
// along the back edge from block `from`.
func (fx *fnExec) bindPhis(env *SpecEnv, li *loopInfo, from *ssa.BasicBlock) {
	fx.bindRangeKey(env, li)
	for k, phi := range li.phis {
		name := fmt.Sprintf("phi%d_%d", li.ordinal, k+1)
		if from == nil {
			if v, ok := fx.vals[phi]; ok {
				env.names[name] = v
			}
			continue
		}
		for pi, p := range li.header.Preds {
			if p == from {
				env.names[name] = fx.fit(fx.val(phi.Edges[pi]), phi.Type())
			}
		}
	}
}

// sentinelTerm: a sentinel error as a non-nil constant, distinct from every other sentinel (errors.New allocates).
func (fx *fnExec) sentinelTerm(g *ssa.Global) Term {
	n := "errs$" + g.Pkg.Pkg.Name() + "." + g.Name()
	if !fx.declared[n] {
		fx.declare(n, SInt)
		fx.assumps = append(fx.assumps, "(assert (not (= "+n+" 0)))")
		for _, o := range fx.sentinels {
			fx.assumps = append(fx.assumps, "(assert (not (= "+n+" "+o+")))")
		}
		fx.sentinels = append(fx.sentinels, n)
	}
	return Term{n, SInt}
}

// rangeIndexCell: the hidden counter of a range-over-slice loop headed by li.header, when every store to it in the
// function is either the initial -1 or "itself + 1" (the shape go/ssa generates).
func rangeIndexCell(li *loopInfo) *ssa.Alloc {
	if li.header.Comment != "rangeindex.loop" {
		return nil
	}
	var ri *ssa.Alloc
	for _, in := range li.header.Instrs {
		if u, ok := in.(*ssa.UnOp); ok && u.Op == token.MUL {
			if a, isA := u.X.(*ssa.Alloc); isA && a.Comment == "rangeindex" {
				ri = a
				break
			}
		}
	}
	if ri == nil {
		return nil
	}
	for _, b := range ri.Parent().Blocks {
		for _, in := range b.Instrs {
			st, ok := in.(*ssa.Store)
			if !ok || st.Addr != ssa.Value(ri) {
				continue
			}
			if c, isC := st.Val.(*ssa.Const); isC && c.Value != nil && c.Int64() == -1 {
				continue
			}
			if bo, isB := st.Val.(*ssa.BinOp); isB && bo.Op == token.ADD {
				if ld, isL := bo.X.(*ssa.UnOp); isL && ld.X == ssa.Value(ri) {
					if c, isC := bo.Y.(*ssa.Const); isC && c.Value != nil && c.Int64() == 1 {
						continue
					}
				}
			}
			return nil
		}
	}
	return ri
}

// checkHooksBound: a hook that matches no program point of the function says nothing any more (the code it was
// written for has gone): reported like a contract that cannot be bound, not silently skipped.
func (fx *fnExec) checkHooksBound() {
	if fx.ctr == nil || len(fx.ctr.Cases) > 0 || fx.ctr.Split != nil {
		return
	}
	for _, h := range fx.ctr.Hooks {
		if h.Event == "return" || h.Event == "exit" || h.Optional {
			continue
		}
		if fx.hookFired[h.Where+"|"+h.Event+"|"+h.Target] {
			continue
		}
		o := &Obligation{Name: fmt.Sprintf("%s/hook-binding:%s %s", fx.name, h.Event, h.Target), Kind: "frame", Func: fx.name, Mode: fx.mode, Prefix: 0, Goal: tTrue,
			Where: h.Where, Src: "on " + h.Event + " " + h.Target, fx: fx}
		o.Preset = "fail"
		o.Model = "the hook matches no program point of the function: what it asserted is no longer checked"
		fx.obls = append(fx.obls, o)
	}
}

// capturedFinal: the captured variable fv of the function under verification is never assigned once the closure has
// been made (neither by the closure itself nor by the enclosing function or its other closures).
func (fx *fnExec) capturedFinal(fv *ssa.FreeVar) bool {
	parent := fx.fn.Parent()
	if parent == nil || closureStores(fx.fn, fv, map[*ssa.Function]bool{}) {
		return false
	}
	idx := -1
	for i, v := range fx.fn.FreeVars {
		if v == fv {
			idx = i
		}
	}
	if idx < 0 {
		return false
	}
	found := false
	for _, b := range parent.Blocks {
		for _, in := range b.Instrs {
			mc, ok := in.(*ssa.MakeClosure)
			if !ok || mc.Fn != ssa.Value(fx.fn) {
				continue
			}
			found = true
			a, isAlloc := mc.Bindings[idx].(*ssa.Alloc)
			if !isAlloc || storesAfter(mc, a) {
				return false
			}
		}
	}
	return found
}

// capturedClosure: the closure a captured function variable denotes, when that variable is final and its only
// assignment in the enclosing function stores a closure made there.
func (fx *fnExec) capturedClosure(fv *ssa.FreeVar) *ssa.Function {
	if !fx.capturedFinal(fv) {
		return nil
	}
	parent := fx.fn.Parent()
	idx := -1
	for i, v := range fx.fn.FreeVars {
		if v == fv {
			idx = i
		}
	}
	var a *ssa.Alloc
	for _, b := range parent.Blocks {
		for _, in := range b.Instrs {
			if mc, ok := in.(*ssa.MakeClosure); ok && mc.Fn == ssa.Value(fx.fn) {
				a, _ = mc.Bindings[idx].(*ssa.Alloc)
			}
		}
	}
	if a == nil {
		return nil
	}
	var fn *ssa.Function
	n := 0
	for _, b := range parent.Blocks {
		for _, in := range b.Instrs {
			st, ok := in.(*ssa.Store)
			if !ok || st.Addr != ssa.Value(a) {
				continue
			}
			n++
			val := st.Val
			if ct, isCT := val.(*ssa.ChangeType); isCT {
				val = ct.X
			}
			if mc, isMC := val.(*ssa.MakeClosure); isMC {
				fn, _ = mc.Fn.(*ssa.Function)
			} else if f, isF := val.(*ssa.Function); isF {
				fn = f
			}
		}
	}
	if n != 1 {
		return nil
	}
	return fn
}
