package main

import (
	"fmt"
	"go/token"
	"go/types"
	"math/big"
	"regexp"
	"sort"
	"strconv"
	"strings"

	"golang.org/x/tools/go/ssa"
)

const tokenLSS = token.LSS

type SpecEnv struct {
	fx       *fnExec
	cur      *State
	old      *State
	names    map[string]SV
	bound    map[string]SV
	callee   bool // evaluating a callee's contract: no access to the caller's cells
	depth    int
	loopPre  *State
	pkg      *ssa.Package    // callee contracts: the callee's package, for its package-level variables
	ptrNames map[string]bool // names bound to an address (Ad) that stand for a pointer value, not for the content
}

func (e *SpecEnv) clone() *SpecEnv {
	n := &SpecEnv{fx: e.fx, cur: e.cur, old: e.old, names: map[string]SV{}, bound: map[string]SV{}, callee: e.callee, depth: e.depth, loopPre: e.loopPre, pkg: e.pkg, ptrNames: e.ptrNames}
	for k, v := range e.names {
		n.names[k] = v
	}
	for k, v := range e.bound {
		n.bound[k] = v
	}
	return n
}

// entryEnv: names are parameters at entry, state is the entry state.
func (fx *fnExec) entryEnv() *SpecEnv {
	env := &SpecEnv{fx: fx, cur: fx.entry, old: fx.entry, names: map[string]SV{}, bound: map[string]SV{}}
	for k, v := range fx.paramEntry {
		env.names[k] = v
		env.names[k+"0"] = v
	}
	return env
}

// curEnv: variables are the current cells; x0 gives entry values of parameters.
func (fx *fnExec) curEnv() *SpecEnv { return fx.envFor(fx.st) }

func (fx *fnExec) envFor(st *State) *SpecEnv {
	env := &SpecEnv{fx: fx, cur: st, old: fx.entry, names: map[string]SV{}, bound: map[string]SV{}}
	for k, v := range fx.paramEntry {
		env.names[k+"0"] = v
		// a parameter without a spill cell (never happens in naive form) falls back to its entry value
		if _, ok := fx.cellNames[k]; !ok {
			env.names[k] = v
		}
	}
	return env
}

// exitEnv: postconditions; parameter names denote entry values.
func (fx *fnExec) exitEnv(res SV) *SpecEnv {
	env := &SpecEnv{fx: fx, cur: fx.st, old: fx.entry, names: map[string]SV{}, bound: map[string]SV{}}
	for k, v := range fx.paramEntry {
		env.names[k] = v
		env.names[k+"0"] = v
	}
	if res != nil {
		fx.bindResult(env, res, fx.fn.Signature)
	}
	return env
}

func (fx *fnExec) evalBool(e Expr, env *SpecEnv) Term {
	v := fx.evalSpec(e, env)
	t := fx.sc(v, SBool)
	if t.So != SBool {
		panic(vcErr("boolean expected, got sort %s", t.So))
	}
	return t
}

func (fx *fnExec) useAxiom(name string) {
	if fx.usedAxioms[name] {
		return
	}
	ax, ok := fx.v.cs.Axioms[name]
	if !ok {
		panic(vcErr("unknown axiom %s", name))
	}
	fx.usedAxioms[name] = true
	env := &SpecEnv{fx: fx, cur: fx.st, old: fx.st, names: map[string]SV{}, bound: map[string]SV{}, callee: true}
	t := fx.evalBool(ax.E, env)
	fx.assumps = append(fx.assumps, "(assert "+t.S+")")
}

func (fx *fnExec) ghostSort(ty string) string {
	switch ty {
	case "int":
		return fx.isort()
	case "bool":
		return SBool
	case "ref":
		return SInt
	case "str":
		return SStr
	case "flt":
		fx.needFlt()
		return SFlt
	case "IntMap":
		return arrSort(SInt, SInt)
	case "BoolMap", "RefBoolMap":
		// RefBoolMap: a set of allocated objects; the engine keeps "g[r] ==> alive(r)" (checked at every update,
		// assumed after every havoc), so that a freshly allocated object is never in the set
		return arrSort(SInt, SBool)
	case "StrBoolMap":
		return arrSort(SStr, SBool)
	case "IntMap2":
		return arrSort(SInt, arrSort(SInt, SInt))
	case "BoolMap2":
		return arrSort(SInt, arrSort(SInt, SBool))
	}
	return sortName(ty)
}

func (fx *fnExec) initGhosts() {
	decl := func(g GhostDecl) {
		so := fx.ghostSort(g.Type)
		if so == SStr {
			fx.needStr()
		}
		fx.ghostTypes[g.Name] = g.Type
		if id, ok := g.Init.(EIdent); ok && id.Name == "empty" && strings.HasPrefix(so, "(Array") {
			// map-valued ghost that starts empty: constant array of false / 0
			_, es, _ := arrParts(so)
			def := "0"
			if es == SBool {
				def = "false"
			}
			fx.st.ghost[g.Name] = Sc{Term{"((as const " + so + ") " + def + ")", so}, nil}
			return
		}
		if g.Init != nil {
			env := &SpecEnv{fx: fx, cur: fx.st, old: fx.st, names: map[string]SV{}, bound: map[string]SV{}}
			for k, v := range fx.paramEntry {
				env.names[k] = v
			}
			v := fx.evalSpec(g.Init, env)
			fx.st.ghost[g.Name] = Sc{fx.sc(v, so), nil}
		} else {
			fx.st.ghost[g.Name] = Sc{fx.freshConst("g_"+g.Name, so), nil}
		}
	}
	for _, k := range sortedKeys(fx.v.cs.Ghosts) {
		decl(fx.v.cs.Ghosts[k])
	}
	if fx.ctr != nil {
		for _, g := range fx.ctr.Ghosts {
			decl(g)
		}
	}
}

var rangeNameRe = regexp.MustCompile(`^range(\d+)_(n|seen)$`)
var ordRe = regexp.MustCompile(`^(.*)@(\d+)$`)

func (fx *fnExec) lookupCell(name string) (ssa.Value, bool) {
	ord := 0
	if m := ordRe.FindStringSubmatch(name); m != nil {
		name = m[1]
		ord, _ = strconv.Atoi(m[2])
	}
	cs := fx.cellNames[name]
	if len(cs) == 0 {
		return nil, false
	}
	if ord > 0 {
		if ord > len(cs) {
			if len(cs) == 1 {
				// x@2 when x is declared once now (a shadowing declaration turned into an assignment): that one
				return cs[0], true
			}
			return nil, false
		}
		return cs[ord-1], true
	}
	if len(cs) > 1 {
		// prefer the unique one currently allocated
		var live []ssa.Value
		for _, c := range cs {
			if _, ok := fx.st.cells[c]; ok {
				live = append(live, c)
			}
		}
		if len(live) == 1 {
			return live[0], true
		}
		panic(vcErr("variable %q is ambiguous (%d declarations): use %s@N", name, len(cs), name))
	}
	return cs[0], true
}

func (fx *fnExec) evalSpec(e Expr, env *SpecEnv) SV {
	switch x := e.(type) {
	case EInt:
		return Lit{x.V}
	case EBool:
		if x.V {
			return Sc{tTrue, nil}
		}
		return Sc{tFalse, nil}
	case EStr:
		return Sc{fx.strConst(x.V), types.Typ[types.String]}
	case EIdent:
		return fx.evalIdent(x.Name, env)
	case EUn:
		if x.Op == "*" {
			// *p where the name p is bound to the address of a variable or field (an argument like &x.f): its content
			if id, isId := x.X.(EIdent); isId {
				if _, bound := env.bound[id.Name]; !bound {
					if ad, isAd := env.names[id.Name].(Ad); isAd && env.ptrNames[id.Name] {
						return fx.loadIn(env.cur, ad, false)
					}
				}
			}
		}
		v := fx.evalSpec(x.X, env)
		switch x.Op {
		case "!":
			return Sc{tNot(fx.sc(v, SBool)), nil}
		case "-":
			if l, ok := v.(Lit); ok {
				return Lit{new(big.Int).Neg(l.V)}
			}
			t := fx.sc(v, "")
			if bvWidth(t.So) > 0 {
				return Sc{app(t.So, "bvneg", t), nil}
			}
			return Sc{app(SInt, "-", t), nil}
		case "^":
			t := fx.sc(v, "")
			if bvWidth(t.So) > 0 {
				return Sc{app(t.So, "bvnot", t), v.(Sc).Typ}
			}
			panic(vcErr("spec ^x needs a bit-vector operand"))
		case "*":
			sc, ok := v.(Sc)
			if !ok || sc.Typ == nil {
				panic(vcErr("spec dereference of %T", v))
			}
			pt, ok := sc.Typ.Underlying().(*types.Pointer)
			if !ok {
				panic(vcErr("spec dereference of a non-pointer"))
			}
			ad := Ad{Heap: "F." + typeKey(pt.Elem()), Idx: []Term{sc.T}, Typ: pt.Elem(), rootTyps: []types.Type{pt.Elem()}}
			return fx.loadIn(env.cur, ad, false)
		}
	case EBin:
		return fx.evalBin(x, env)
	case ECond:
		c := fx.evalBool(x.C, env)
		return fx.iteSV(c, fx.evalSpec(x.A, env), fx.evalSpec(x.B, env))
	case ESel:
		if id, ok := x.X.(EIdent); ok {
			if g := fx.v.sentinelByName(id.Name, x.Name); g != nil {
				return Sc{fx.sentinelTerm(g), g.Type().(*types.Pointer).Elem()}
			}
		}
		v := fx.evalSpec(x.X, env)
		return fx.selField(v, x.Name, env)
	case EIndex:
		v := fx.evalSpec(x.X, env)
		i := fx.evalSpec(x.I, env)
		return fx.specIndex(v, i, env)
	case ESliceE:
		v := fx.evalSpec(x.X, env)
		s, ok := v.(Sl)
		if !ok {
			panic(vcErr("spec slicing of %T", v))
		}
		lo := fx.iZero()
		if x.Lo != nil {
			lo = fx.idx(fx.evalSpec(x.Lo, env))
		}
		hi := s.Len
		if x.Hi != nil {
			hi = fx.idx(fx.evalSpec(x.Hi, env))
		}
		return Sl{s.Arr, fx.iAdd(s.Off, lo), fx.iSub(hi, lo), fx.iSub(s.Cap, lo), s.Elem}
	case EQuant:
		ne := env.clone()
		var binders []string
		var guards []Term
		for _, qv := range x.Vars {
			var typ types.Type
			if gt := fx.goType(qv.Type); gt != nil {
				typ = gt
			}
			so := SInt
			if typ == nil {
				so = fx.ghostSort(qv.Type)
			}
			if typ != nil {
				if stt, isStruct := typ.Underlying().(*types.Struct); isStruct {
					// a variable ranging over the values of a key struct type: bound as the datatype, read field-wise
					if ks, ok := fx.keySort(typ); ok && strings.HasPrefix(ks, "K$") {
						n := qv.Name + "$q"
						binders = append(binders, fmt.Sprintf("(%s %s)", n, ks))
						var fsv []SV
						for fi := 0; fi < stt.NumFields(); fi++ {
							fso, _ := fx.scalarSort(stt.Field(fi).Type())
							fsv = append(fsv, Sc{Term{fmt.Sprintf("(%s$f%d %s)", ks, fi, n), fso}, stt.Field(fi).Type()})
						}
						ne.bound[qv.Name] = St{Typ: typ, F: fsv}
						continue
					}
				}
			}
			switch qv.Type {
			case "byte":
				so = fx.isort()
				if fx.mode == "bv" {
					so = bvSort(8)
				}
			case "uint64":
				if fx.mode == "bv" {
					so = bvSort(64)
				}
				typ = types.Typ[types.Uint64]
			}
			if so == SStr {
				fx.needStr()
			}
			n := qv.Name + "$q"
			binders = append(binders, fmt.Sprintf("(%s %s)", n, so))
			ne.bound[qv.Name] = Sc{Term{n, so}, typ}
			if fx.mode == "int" {
				switch qv.Type {
				case "byte":
					guards = append(guards, tAnd(app(SBool, "<=", intLit64(0), Term{n, so}), app(SBool, "<", Term{n, so}, intLit64(256))))
				case "uint64":
					guards = append(guards, tAnd(app(SBool, "<=", intLit64(0), Term{n, so}), app(SBool, "<", Term{n, so}, intLit(pow2(64)))))
				}
			}
		}
		body := fx.evalBool(x.Body, ne)
		q := "exists"
		if x.Forall {
			q = "forall"
			body = tImp(tAnd(guards...), body)
		} else {
			body = tAnd(append(guards, body)...)
		}
		if len(x.Patterns) > 0 {
			var ps []string
			for _, g := range x.Patterns {
				var ts []string
				for _, pe := range g {
					ts = append(ts, flatten(fx.evalSpec(pe, ne))[0].S)
				}
				ps = append(ps, ":pattern ("+strings.Join(ts, " ")+")")
			}
			return Sc{Term{fmt.Sprintf("(%s (%s) (! %s %s))", q, strings.Join(binders, " "), body.S, strings.Join(ps, " ")), SBool}, nil}
		}
		return Sc{Term{fmt.Sprintf("(%s (%s) %s)", q, strings.Join(binders, " "), body.S), SBool}, nil}
	case ECall:
		return fx.evalCall(x, env)
	}
	panic(vcErr("spec expression %T unsupported", e))
}

func (fx *fnExec) evalIdent(name string, env *SpecEnv) SV {
	if v, ok := env.bound[name]; ok {
		return v
	}
	if v, ok := env.names[name]; ok {
		if ad, isAd := v.(Ad); isAd {
			if env.ptrNames[name] {
				// a pointer-typed parameter bound to an address: used bare, it is some non-nil pointer
				return Sc{fx.addrConst(ad), nil}
			}
			return fx.loadIn(env.cur, ad, false)
		}
		return v
	}
	if v, ok := env.cur.ghost[name]; ok {
		return v
	}
	if name == "nil" {
		return Lit{big.NewInt(0)}
	}
	// range<k>_n / range<k>_seen: number of entries delivered so far by the k-th `range` over a map, and their key set
	if m := rangeNameRe.FindStringSubmatch(name); m != nil {
		g := "$range" + m[1]
		if m[2] == "n" {
			g += "#n"
		}
		if v, ok := env.cur.ghost[g]; ok {
			return v
		}
	}
	if !env.callee {
		if c, ok := fx.lookupCell(name); ok {
			if a, isAlloc := c.(*ssa.Alloc); isAlloc && !isCellAlloc(a) && !isArrayBacking(a) {
				// a named local that escapes lives in the heap: read it through its address
				ref, ok := fx.vals[a].(Sc)
				if !ok {
					panic(vcErr("variable %q is not allocated yet at this point", name))
				}
				et := a.Type().(*types.Pointer).Elem()
				return fx.loadIn(env.cur, Ad{Heap: "F." + typeKey(et), Idx: []Term{ref.T}, Typ: et, rootTyps: []types.Type{et}}, false)
			}
			v, ok := env.cur.cells[c]
			if !ok {
				save := fx.st
				fx.st = env.cur
				v = fx.cellValue(c)
				fx.st = save
			}
			return v
		}
	}
	if d, ok := fx.lookupDefine(name); ok && len(d.Params) == 0 {
		return fx.evalSpec(d.Body, env)
	}
	if d, ok := fx.v.cs.Declares[name]; ok && len(d.Args) == 0 {
		fx.declareFun(d.Name, nil, d.Ret)
		return Sc{Term{d.Name, d.Ret}, nil}
	}
	// package-level variables of the function's package (of the callee's package in a callee's contract)
	gpkg := env.pkg
	if gpkg == nil && !env.callee && fx.fn != nil {
		gpkg = fx.fn.Pkg
	}
	if gpkg != nil {
		if g, ok := gpkg.Members[name].(*ssa.Global); ok {
			defer fx.tableFactIn(env.cur, g)
			return fx.loadIn(env.cur, Ad{Cell: g, Typ: g.Type().(*types.Pointer).Elem()}, false)
		}
	}
	panic(vcErr("unknown identifier %q in specification", name))
}

func (fx *fnExec) selField(v SV, name string, env *SpecEnv) SV {
	switch s := v.(type) {
	case St:
		st, ok := s.Typ.Underlying().(*types.Struct)
		if !ok {
			panic(vcErr("selector .%s on non-struct", name))
		}
		for i := 0; i < st.NumFields(); i++ {
			if st.Field(i).Name() == name {
				return s.F[i]
			}
		}
		// promoted through embedded struct
		for i := 0; i < st.NumFields(); i++ {
			if st.Field(i).Embedded() {
				if inner, ok := s.F[i].(St); ok {
					if r := fx.trySel(inner, name, env); r != nil {
						return r
					}
				}
			}
		}
		panic(vcErr("no field %s in %s", name, s.Typ))
	case Tu:
		if i, err := strconv.Atoi(name); err == nil && i < len(s.E) {
			return s.E[i]
		}
	case Sl:
		switch name {
		case "len":
			return Sc{s.Len, types.Typ[types.Int]}
		case "cap":
			return Sc{s.Cap, types.Typ[types.Int]}
		case "arr":
			return Sc{s.Arr, nil}
		case "off":
			return Sc{s.Off, types.Typ[types.Int]}
		}
	case Sc:
		if s.Typ != nil {
			if pt, ok := s.Typ.Underlying().(*types.Pointer); ok {
				if st, ok := pt.Elem().Underlying().(*types.Struct); ok {
					for i := 0; i < st.NumFields(); i++ {
						if st.Field(i).Name() == name {
							ft := st.Field(i).Type()
							ad := Ad{Heap: "F." + typeKey(pt.Elem()), Idx: []Term{s.T}, Path: []pathEl{{Field: i, Name: name}}, Typ: ft, rootTyps: []types.Type{pt.Elem(), ft}}
							return fx.loadIn(env.cur, ad, false)
						}
					}
					panic(vcErr("no field %s in %s", name, pt.Elem()))
				}
			}
		}
	}
	panic(vcErr("selector .%s on %T unsupported", name, v))
}

func (fx *fnExec) trySel(v St, name string, env *SpecEnv) (r SV) {
	defer func() {
		if recover() != nil {
			r = nil
		}
	}()
	return fx.selField(v, name, env)
}

func (fx *fnExec) specIndex(v, i SV, env *SpecEnv) SV {
	if fx.mode == "bv" {
		// an index of a narrower unsigned type (a byte used as a table index) is widened like Go does
		if sc, ok := i.(Sc); ok {
			if w := bvWidth(sc.T.So); w > 0 && w < 64 {
				i = Sc{fx.bvResize(sc.T, 64), types.Typ[types.Int]}
			}
		}
	}
	switch s := v.(type) {
	case Sl:
		ix := fx.idx(i)
		ad := Ad{Heap: "E." + typeKey(s.Elem), Idx: []Term{s.Arr, fx.eIdx(s.Off, ix)}, Typ: s.Elem, rootTyps: []types.Type{s.Elem}}
		return fx.loadIn(env.cur, ad, false)
	case Sc:
		if s.T.So == SStr {
			return Sc{app(SInt, "sat", s.T, fx.idx(i)), types.Typ[types.Byte]}
		}
		if is, es, ok := arrParts(s.T.So); ok {
			var et types.Type
			if s.Typ != nil {
				if at, ok := s.Typ.Underlying().(*types.Array); ok {
					et = at.Elem()
				}
			}
			_ = es
			if stv, isSt := i.(St); isSt && strings.HasPrefix(is, "K$") {
				return Sc{tSel(s.T, fx.keyTerm(stv, stv.Typ, is)), et}
			}
			return Sc{tSel(s.T, fx.sc(i, is)), et}
		}
		if s.Typ != nil {
			if mt, ok := s.Typ.Underlying().(*types.Map); ok {
				_, val := fx.mapGet(env.cur, s.T, s.Typ, i)
				_ = mt
				return val
			}
		}
	case St:
		if _, ok := s.Typ.Underlying().(*types.Array); ok {
			ix := fx.idx(i)
			return fx.walk(s, []pathEl{{Idx: &ix}})
		}
	}
	panic(vcErr("spec indexing of %T unsupported", v))
}

func (fx *fnExec) evalBin(x EBin, env *SpecEnv) SV {
	switch x.Op {
	case "&&":
		return Sc{tAnd(fx.evalBool(x.X, env), fx.evalBool(x.Y, env)), nil}
	case "||":
		return Sc{tOr(fx.evalBool(x.X, env), fx.evalBool(x.Y, env)), nil}
	case "==>":
		return Sc{tImp(fx.evalBool(x.X, env), fx.evalBool(x.Y, env)), nil}
	case "<==>":
		return Sc{tEq(fx.evalBool(x.X, env), fx.evalBool(x.Y, env)), nil}
	}
	a, b := fx.evalSpec(x.X, env), fx.evalSpec(x.Y, env)
	switch x.Op {
	case "==":
		return Sc{fx.svEq(a, b), nil}
	case "!=":
		return Sc{tNot(fx.svEq(a, b)), nil}
	}
	la, aLit := a.(Lit)
	lb, bLit := b.(Lit)
	if aLit && bLit {
		r := new(big.Int)
		switch x.Op {
		case "+":
			return Lit{r.Add(la.V, lb.V)}
		case "-":
			return Lit{r.Sub(la.V, lb.V)}
		case "*":
			return Lit{r.Mul(la.V, lb.V)}
		case "/":
			return Lit{r.Div(la.V, lb.V)}
		case "%":
			return Lit{r.Mod(la.V, lb.V)}
		case "<<":
			return Lit{r.Lsh(la.V, uint(lb.V.Int64()))}
		case ">>":
			return Lit{r.Rsh(la.V, uint(lb.V.Int64()))}
		case "<":
			return Sc{boolTerm(la.V.Cmp(lb.V) < 0), nil}
		case "<=":
			return Sc{boolTerm(la.V.Cmp(lb.V) <= 0), nil}
		case ">":
			return Sc{boolTerm(la.V.Cmp(lb.V) > 0), nil}
		case ">=":
			return Sc{boolTerm(la.V.Cmp(lb.V) >= 0), nil}
		}
	}
	var so string
	var typ types.Type
	if s, ok := a.(Sc); ok {
		so, typ = s.T.So, s.Typ
	}
	if s, ok := b.(Sc); ok && (so == "" || aLit) {
		so = s.T.So
		if typ == nil {
			typ = s.Typ
		}
	}
	if so == "" {
		so = fx.isort()
	}
	ta, tb := fx.sc(a, so), fx.sc(b, so)
	if w := bvWidth(so); w > 0 {
		if bvWidth(tb.So) != w && x.Op != "<<" && x.Op != ">>" {
			panic(vcErr("bit-vector width mismatch in spec: %s vs %s", ta.So, tb.So))
		}
		signed := false
		for _, v := range []SV{a, b} {
			if s, ok := v.(Sc); ok && s.Typ != nil {
				if ii, ok := intInfoOf(s.Typ); ok && ii.signed {
					signed = true
				}
			}
		}
		p := "bvu"
		if signed {
			p = "bvs"
		}
		switch x.Op {
		case "+":
			return Sc{app(so, "bvadd", ta, tb), typ}
		case "-":
			return Sc{app(so, "bvsub", ta, tb), typ}
		case "*":
			return Sc{app(so, "bvmul", ta, tb), typ}
		case "/":
			if signed {
				return Sc{app(so, "bvsdiv", ta, tb), typ}
			}
			return Sc{app(so, "bvudiv", ta, tb), typ}
		case "%":
			if signed {
				return Sc{app(so, "bvsrem", ta, tb), typ}
			}
			return Sc{app(so, "bvurem", ta, tb), typ}
		case "&":
			return Sc{app(so, "bvand", ta, tb), typ}
		case "|":
			return Sc{app(so, "bvor", ta, tb), typ}
		case "^":
			return Sc{app(so, "bvxor", ta, tb), typ}
		case "&^":
			return Sc{app(so, "bvand", ta, app(so, "bvnot", tb)), typ}
		case "<<", ">>":
			tb = fx.bvResize(tb, w)
			if x.Op == "<<" {
				return Sc{app(so, "bvshl", ta, tb), typ}
			}
			if signed {
				return Sc{app(so, "bvashr", ta, tb), typ}
			}
			return Sc{app(so, "bvlshr", ta, tb), typ}
		case "<":
			return Sc{app(SBool, p+"lt", ta, tb), nil}
		case "<=":
			return Sc{app(SBool, p+"le", ta, tb), nil}
		case ">":
			return Sc{app(SBool, p+"gt", ta, tb), nil}
		case ">=":
			return Sc{app(SBool, p+"ge", ta, tb), nil}
		}
		panic(vcErr("spec operator %s on bit-vectors unsupported", x.Op))
	}
	if so != SInt {
		panic(vcErr("spec operator %s on sort %s unsupported", x.Op, so))
	}
	// mathematical integers: never wrap
	switch x.Op {
	case "+":
		return Sc{app(SInt, "+", ta, tb), nil}
	case "-":
		return Sc{app(SInt, "-", ta, tb), nil}
	case "*":
		return Sc{app(SInt, "*", ta, tb), nil}
	case "/":
		return Sc{app(SInt, "div", ta, tb), nil}
	case "%":
		r := app(SInt, "mod", ta, tb)
		if _, lit := isNumeral(tb); !lit && !strings.Contains(r.S, "$q") {
			// linear consequences of the Euclidean remainder with a symbolic divisor
			fx.assume(tImp(app(SBool, ">", tb, intLit64(0)), tAnd(app(SBool, "<=", intLit64(0), r), app(SBool, "<", r, tb),
				tImp(tAnd(app(SBool, "<=", intLit64(0), ta), app(SBool, "<", ta, tb)), tEq(r, ta)))))
		}
		return Sc{r, nil}
	case "<":
		return Sc{app(SBool, "<", ta, tb), nil}
	case "<=":
		return Sc{app(SBool, "<=", ta, tb), nil}
	case ">":
		return Sc{app(SBool, ">", ta, tb), nil}
	case ">=":
		return Sc{app(SBool, ">=", ta, tb), nil}
	case "<<", ">>":
		if c, ok := isNumeral(tb); ok && c.IsInt64() {
			p := intLit(pow2(int(c.Int64())))
			if x.Op == "<<" {
				return Sc{app(SInt, "*", ta, p), nil}
			}
			return Sc{app(SInt, "div", ta, p), nil}
		}
		fx.needPow2()
		if x.Op == "<<" {
			return Sc{app(SInt, "*", ta, app(SInt, "pow2", tb)), nil}
		}
		return Sc{app(SInt, "div", ta, app(SInt, "pow2", tb)), nil}
	case "&", "|", "^", "&^":
		op := map[string]token.Token{"&": token.AND, "|": token.OR, "^": token.XOR, "&^": token.AND_NOT}[x.Op]
		if c, ok := isNumeral(tb); ok {
			if r, ok := bitOpConst(op, ta, c, 64); ok {
				return Sc{r, nil}
			}
		}
		fx.needBitFuns()
		name := map[string]string{"&": "bit.and", "|": "bit.or", "^": "bit.xor", "&^": "bit.andnot"}[x.Op]
		return Sc{app(SInt, name, ta, tb), nil}
	}
	panic(vcErr("spec operator %s unsupported", x.Op))
}

func boolTerm(b bool) Term {
	if b {
		return tTrue
	}
	return tFalse
}

func (fx *fnExec) bvResize(t Term, w int) Term {
	tw := bvWidth(t.So)
	switch {
	case tw == w:
		return t
	case tw == 0:
		if v, ok := isNumeral(t); ok {
			return bvLit(v, w)
		}
		panic(vcErr("cannot resize %s to bit-vector", t.So))
	case tw < w:
		return T(bvSort(w), "((_ zero_extend %d) %s)", w-tw, t.S)
	default:
		// saturating narrow for shift counts
		big_ := app(SBool, "bvuge", t, bvLit(big.NewInt(int64(w)), tw))
		return tIte(big_, bvLit(big.NewInt(int64(w)), w), T(bvSort(w), "((_ extract %d 0) %s)", w-1, t.S))
	}
}

func (fx *fnExec) evalCall(x ECall, env *SpecEnv) SV {
	switch x.Fun {
	case "old":
		ne := env.clone()
		ne.cur = env.old
		return fx.evalSpec(x.Args[0], ne)
	case "len":
		v := fx.evalSpec(x.Args[0], env)
		switch s := v.(type) {
		case Sl:
			return Sc{s.Len, types.Typ[types.Int]}
		case Sc:
			if s.T.So == SStr {
				return Sc{app(SInt, "slen", s.T), types.Typ[types.Int]}
			}
			if s.Typ != nil {
				if _, ok := s.Typ.Underlying().(*types.Map); ok {
					return Sc{fx.mapLen(env.cur, s.T, s.Typ), types.Typ[types.Int]}
				}
				if at, ok := s.Typ.Underlying().(*types.Array); ok {
					return Lit{big.NewInt(at.Len())}
				}
			}
		}
		panic(vcErr("spec len of %T", v))
	case "cap":
		v := fx.evalSpec(x.Args[0], env)
		if s, ok := v.(Sl); ok {
			return Sc{s.Cap, types.Typ[types.Int]}
		}
		panic(vcErr("spec cap of %T", v))
	case ".has", ".val":
		m := fx.evalSpec(x.Args[0], env)
		k := fx.evalSpec(x.Args[1], env)
		ms, ok := m.(Sc)
		if !ok {
			panic(vcErr("%s on %T", x.Fun, m))
		}
		if ms.Typ != nil {
			if _, isMap := ms.Typ.Underlying().(*types.Map); isMap {
				has, val := fx.mapGet(env.cur, ms.T, ms.Typ, k)
				if x.Fun == ".has" {
					return Sc{has, nil}
				}
				return val
			}
		}
		// ghost set/map as SMT array
		if is, _, ok := arrParts(ms.T.So); ok {
			return Sc{tSel(ms.T, fx.sc(k, is)), nil}
		}
		panic(vcErr("%s on non-map", x.Fun))
	case ".set": // ghost array update: a.set(k, v)
		m := fx.evalSpec(x.Args[0], env).(Sc)
		is, es, ok := arrParts(m.T.So)
		if !ok {
			panic(vcErr(".set on non-array"))
		}
		return Sc{tStore(m.T, fx.sc(fx.evalSpec(x.Args[1], env), is), fx.sc(fx.evalSpec(x.Args[2], env), es)), nil}
	case "ite":
		return fx.iteSV(fx.evalBool(x.Args[0], env), fx.evalSpec(x.Args[1], env), fx.evalSpec(x.Args[2], env))
	case "min", "max":
		a, b := fx.evalSpec(x.Args[0], env), fx.evalSpec(x.Args[1], env)
		lt := fx.evalBin(EBin{"<", x.Args[0], x.Args[1]}, env).(Sc).T
		if x.Fun == "min" {
			return fx.iteSV(lt, a, b)
		}
		return fx.iteSV(lt, b, a)
	case "abs":
		a := fx.sc(fx.evalSpec(x.Args[0], env), SInt)
		return Sc{tIte(app(SBool, ">=", a, intLit64(0)), a, app(SInt, "-", a)), nil}
	case "concat":
		a := fx.sc(fx.evalSpec(x.Args[0], env), "")
		b := fx.sc(fx.evalSpec(x.Args[1], env), "")
		return Sc{app(bvSort(bvWidth(a.So)+bvWidth(b.So)), "concat", a, b), nil}
	case "zext", "sext":
		a := fx.sc(fx.evalSpec(x.Args[0], env), "")
		w := int(x.Args[1].(EInt).V.Int64())
		aw := bvWidth(a.So)
		if aw == 0 {
			if v, ok := isNumeral(a); ok {
				return Sc{bvLit(v, w), nil}
			}
			panic(vcErr("zext of non-bit-vector"))
		}
		if aw == w {
			return Sc{a, nil}
		}
		op := "zero_extend"
		if x.Fun == "sext" {
			op = "sign_extend"
		}
		return Sc{T(bvSort(w), "((_ %s %d) %s)", op, w-aw, a.S), nil}
	case "extract":
		hi := int(x.Args[0].(EInt).V.Int64())
		lo := int(x.Args[1].(EInt).V.Int64())
		a := fx.sc(fx.evalSpec(x.Args[2], env), "")
		return Sc{T(bvSort(hi-lo+1), "((_ extract %d %d) %s)", hi, lo, a.S), nil}
	case "bv":
		v := x.Args[0].(EInt).V
		w := int(x.Args[1].(EInt).V.Int64())
		return Sc{bvLit(v, w), nil}
	case "bv2nat":
		a := fx.sc(fx.evalSpec(x.Args[0], env), "")
		return Sc{app(SInt, "bv2nat", a), nil}
	case "int", "uint64", "uint", "byte", "uint8", "int64", "uint16", "int16", "uint32", "int32":
		// Go conversion semantics on a typed operand; identity on pure spec integers in int mode
		v := fx.evalSpec(x.Args[0], env)
		var to types.Type
		for _, b := range types.Typ {
			if b.Name() == x.Fun {
				to = b
			}
		}
		if x.Fun == "byte" {
			to = types.Typ[types.Uint8]
		}
		if s, ok := v.(Sc); ok && s.Typ != nil {
			if r := fx.convert(v, s.Typ, to, ""); r != nil {
				return r
			}
		}
		if l, ok := v.(Lit); ok {
			so, _ := fx.scalarSort(to)
			return Sc{fx.litTo(l.V, so), to}
		}
		if s, ok := v.(Sc); ok {
			if fx.mode == "bv" {
				ti, _ := intInfoOf(to)
				return Sc{fx.bvResizePlain(s.T, ti.w), to}
			}
			return Sc{s.T, to}
		}
		panic(vcErr("conversion %s of %T", x.Fun, v))
	case "is_int", "is_string":
		// dynamic type of an interface value
		v := fx.sc(fx.evalSpec(x.Args[0], env), SInt)
		fx.declareFun("dyn$type", []string{SInt}, SInt)
		key := "int"
		if x.Fun == "is_string" {
			key = "string"
		}
		return Sc{tAnd(tNot(tEq(v, intLit64(0))), tEq(app(SInt, "dyn$type", v), intLit64(int64(fx.v.typeID(key))))), nil}
	case "f_lit":
		// f_lit("1/2"): the floating-point constant written so by go/constant's ExactString (1, 100, 1/2, ...): the
		// same uninterpreted constant the translation of a Go literal of that value uses
		k, ok := x.Args[0].(EStr)
		if !ok {
			panic(vcErr("f_lit(\"exact\")"))
		}
		return Sc{fx.fltConst(k.V), types.Typ[types.Float64]}
	case "f_lt", "f_le":
		fx.needFlt()
		return Sc{app(SBool, "f."+strings.TrimPrefix(x.Fun, "f_"), fx.sc(fx.evalSpec(x.Args[0], env), SFlt), fx.sc(fx.evalSpec(x.Args[1], env), SFlt)), types.Typ[types.Bool]}
	case "f_ofint", "f_toint", "f_add", "f_mul", "f_div", "f_sub":
		// floating-point operations as the code path models them: uninterpreted functions over an abstract sort
		// (the SAME symbols the translation of Go float expressions uses, so equal operands give equal results)
		fx.needFlt()
		name := "f." + strings.TrimPrefix(x.Fun, "f_")
		switch x.Fun {
		case "f_ofint":
			return Sc{app(SFlt, name, fx.sc(fx.evalSpec(x.Args[0], env), SInt)), types.Typ[types.Float64]}
		case "f_toint":
			return Sc{app(SInt, name, fx.sc(fx.evalSpec(x.Args[0], env), SFlt)), types.Typ[types.Int]}
		}
		return Sc{app(SFlt, name, fx.sc(fx.evalSpec(x.Args[0], env), SFlt), fx.sc(fx.evalSpec(x.Args[1], env), SFlt)), types.Typ[types.Float64]}
	case "unbox_ref":
		// unbox_ref("pkg.Type", v): the reference (map, pointer) held by interface value v when its dynamic type is pkg.Type
		k, ok := x.Args[0].(EStr)
		if !ok || len(x.Args) != 2 {
			panic(vcErr("unbox_ref(\"type\", v)"))
		}
		v := fx.sc(fx.evalSpec(x.Args[1], env), SInt)
		fx.declareFun("unbox$"+san(k.V), []string{SInt}, SInt)
		return Sc{app(SInt, "unbox$"+san(k.V), v), nil}
	case "unbox_str":
		v := fx.sc(fx.evalSpec(x.Args[0], env), SInt)
		fx.needStr()
		fx.declareFun("unbox$string", []string{SInt}, SStr)
		return Sc{app(SStr, "unbox$string", v), types.Typ[types.String]}
	case "unbox_int":
		v := fx.sc(fx.evalSpec(x.Args[0], env), SInt)
		so := fx.isort()
		fx.declareFun("unbox$int", []string{SInt}, so)
		return Sc{app(so, "unbox$int", v), types.Typ[types.Int]}
	case "pow2":
		fx.needPow2()
		return Sc{app(SInt, "pow2", fx.sc(fx.evalSpec(x.Args[0], env), SInt)), nil}
	case "wrap64":
		a := fx.sc(fx.evalSpec(x.Args[0], env), "")
		if bvWidth(a.So) > 0 {
			return Sc{a, nil}
		}
		return Sc{app(SInt, "mod", a, intLit(pow2(64))), nil}
	case "entry":
		// value of an expression in the state in which the enclosing loop was first reached (loop invariants only)
		if env.loopPre == nil {
			panic(vcErr("entry(...) is only meaningful in a loop invariant"))
		}
		ne := env.clone()
		ne.cur = env.loopPre
		return fx.evalSpec(x.Args[0], ne)
	case "old_elem":
		// old_elem(s, i): element i (evaluated NOW) of slice s as it was at function entry
		ne := env.clone()
		ne.cur = env.old
		sv := fx.evalSpec(x.Args[0], ne)
		iv := fx.evalSpec(x.Args[1], env)
		return fx.specIndex(sv, iv, ne)
	case "entry_elem":
		// entry_elem(s, i): element i (evaluated NOW) of slice s as it was when the enclosing loop was first reached
		if env.loopPre == nil {
			panic(vcErr("entry_elem(...) is only meaningful in a loop invariant"))
		}
		ne := env.clone()
		ne.cur = env.loopPre
		sv := fx.evalSpec(x.Args[0], ne)
		iv := fx.evalSpec(x.Args[1], env)
		return fx.specIndex(sv, iv, ne)
	case "heap_unchanged_except", "only_fresh_modified", "entry_unchanged_except", "heap_unchanged_except_elems":
		// frame over all heaps whose name starts with the given prefix
		pre, ok := x.Args[0].(EStr)
		if !ok {
			panic(vcErr("%s: first argument must be a heap-name prefix string", x.Fun))
		}
		var except []Term
		var exceptSl []Sl // heap_unchanged_except_elems: only the elements s[0:len(s)] of these slices may differ
		for _, a := range x.Args[1:] {
			v := fx.evalSpec(a, env)
			if sl, ok := v.(Sl); ok {
				if x.Fun == "heap_unchanged_except_elems" {
					exceptSl = append(exceptSl, sl)
					continue
				}
				except = append(except, sl.Arr)
			} else {
				except = append(except, fx.sc(v, SInt))
			}
		}
		oldSt := env.old
		if x.Fun == "entry_unchanged_except" {
			if env.loopPre == nil {
				panic(vcErr("entry_unchanged_except is only meaningful in a loop invariant"))
			}
			oldSt = env.loopPre
		}
		names := map[string]bool{}
		for k := range env.cur.heaps {
			names[k] = true
		}
		for k := range oldSt.heaps {
			names[k] = true
		}
		var cs []Term
		for _, k := range sortedKeys(names) {
			if !strings.HasPrefix(k, pre.V) || k == "$alive" {
				continue
			}
			so := fx.heapSorts[k]
			hc := fx.heap(env.cur, k, so)
			ho := fx.heap(oldSt, k, so)
			if hc.S == ho.S {
				continue
			}
			r := Term{"r$q", SInt}
			var guard Term
			if x.Fun == "only_fresh_modified" {
				guard = tSel(fx.heap(oldSt, "$alive", arrSort(SInt, SBool)), r)
			} else {
				var ne []Term
				for _, e := range except {
					ne = append(ne, tNot(tEq(r, e)))
				}
				guard = tAnd(ne...)
			}
			if _, es, _ := arrParts(so); strings.HasPrefix(es, "(Array") {
				// two-level heap (slice elements): state the frame element-wise, no equalities between rows
				is, _, _ := arrParts(es)
				i := Term{"i$q", is}
				for _, sl := range exceptSl {
					in := tAnd(tEq(r, sl.Arr), app(SBool, "<=", sl.Off, i), app(SBool, "<", i, app(SInt, "+", sl.Off, sl.Len)))
					guard = tAnd(guard, tNot(in))
				}
				body := tImp(guard, tEq(tSel(tSel(hc, r), i), tSel(tSel(ho, r), i)))
				cs = append(cs, Term{fmt.Sprintf("(forall ((r$q Int) (i$q %s)) (! %s :pattern ((select (select %s r$q) i$q))))", is, body.S, hc.S), SBool})
				continue
			}
			body := tImp(guard, tEq(tSel(hc, r), tSel(ho, r)))
			cs = append(cs, Term{fmt.Sprintf("(forall ((r$q Int)) (! %s :pattern ((select %s r$q))))", body.S, hc.S), SBool})
		}
		return Sc{tAnd(cs...), nil}
	case "addr":
		// address of a named local variable that lives in the heap (its address is taken in the code)
		id, ok := x.Args[0].(EIdent)
		if !ok || len(x.Args) != 1 {
			panic(vcErr("addr(x): x must be a local variable"))
		}
		c, found := fx.lookupCell(id.Name)
		a, isAlloc := c.(*ssa.Alloc)
		if !found || !isAlloc || isCellAlloc(a) {
			panic(vcErr("addr(%s): not a heap-allocated local variable", id.Name))
		}
		ref, ok := fx.vals[a].(Sc)
		if !ok {
			panic(vcErr("variable %q is not allocated yet at this point", id.Name))
		}
		return Sc{ref.T, a.Type()}
	case "fresh":
		// allocated by this call: not alive before, alive now
		v := fx.evalSpec(x.Args[0], env)
		var t Term
		if sl, ok := v.(Sl); ok {
			t = sl.Arr
		} else {
			t = fx.sc(v, SInt)
		}
		so := arrSort(SInt, SBool)
		return Sc{tAnd(tNot(tSel(fx.heap(env.old, "$alive", so), t)), tSel(fx.heap(env.cur, "$alive", so), t)), nil}
	case "alive":
		v := fx.sc(fx.evalSpec(x.Args[0], env), SInt)
		return Sc{tSel(fx.heap(env.cur, "$alive", arrSort(SInt, SBool)), v), nil}
	case "str":
		// str(byteslice): the string with the slice's content
		v := fx.evalSpec(x.Args[0], env)
		sl, ok := v.(Sl)
		if !ok {
			panic(vcErr("str() of %T", v))
		}
		fx.needStr()
		h := fx.heap(env.cur, "E.byte", arrSort(SInt, arrSort(SInt, SInt)))
		return Sc{app(SStr, "str.of", tSel(h, sl.Arr), sl.Off, sl.Len), types.Typ[types.String]}
	}
	// macro
	if d, ok := fx.lookupDefine(x.Fun); ok {
		if len(d.Params) != len(x.Args) {
			panic(vcErr("define %s expects %d arguments", d.Name, len(d.Params)))
		}
		if env.depth > 50 {
			panic(vcErr("define %s: expansion too deep", d.Name))
		}
		// evaluate arguments once, bind as names
		ne := env.clone()
		ne.depth++
		for i, p := range d.Params {
			ne.bound[p] = fx.evalSpec(x.Args[i], env)
		}
		return fx.evalSpec(d.Body, ne)
	}
	if d, ok := fx.v.cs.Declares[x.Fun]; ok {
		if len(d.Args) != len(x.Args) {
			panic(vcErr("declared function %s expects %d arguments", d.Name, len(d.Args)))
		}
		for _, s := range append(append([]string{}, d.Args...), d.Ret) {
			if strings.Contains(s, "Str") {
				fx.needStr()
			}
			if strings.Contains(s, "Flt") {
				fx.needFlt()
			}
		}
		fx.declareFun(d.Name, d.Args, d.Ret)
		var as []Term
		for i, a := range x.Args {
			as = append(as, fx.sc(fx.evalSpec(a, env), d.Args[i]))
		}
		var rt types.Type
		if d.GoType != "" {
			rt = fx.goType(d.GoType)
			if rt == nil {
				panic(vcErr("declared function %s: unknown Go type %s", d.Name, d.GoType))
			}
		}
		return Sc{app(d.Ret, d.Name, as...), rt}
	}
	panic(vcErr("unknown spec function %s", x.Fun))
}

func (fx *fnExec) bvResizePlain(t Term, w int) Term {
	tw := bvWidth(t.So)
	switch {
	case tw == w || tw == 0:
		return t
	case tw < w:
		return T(bvSort(w), "((_ zero_extend %d) %s)", w-tw, t.S)
	}
	return T(bvSort(w), "((_ extract %d 0) %s)", w-1, t.S)
}

// ---- hooks

func matchTarget(pat, name string) bool {
	if pat == "" || pat == "*" {
		return true
	}
	for _, p := range strings.Split(pat, "|") {
		p = strings.TrimSpace(p)
		if p == name {
			return true
		}
		if strings.HasSuffix(p, "*") && strings.HasPrefix(name, strings.TrimSuffix(p, "*")) {
			return true
		}
		if strings.HasPrefix(p, "*") && strings.HasSuffix(name, strings.TrimPrefix(p, "*")) {
			return true
		}
	}
	return false
}

func (fx *fnExec) runHooks(event, target string, env *SpecEnv, where string) bool {
	if fx.ctr == nil {
		return false
	}
	ran := false
	for _, h := range fx.ctr.Hooks {
		if h.Event != event || !matchTarget(h.Target, target) {
			continue
		}
		ran = true
		fx.runHook(h, env, where)
	}
	return ran
}

func (fx *fnExec) runHook(h Hook, env *SpecEnv, where string) {
	if fx.hookFired == nil {
		fx.hookFired = map[string]bool{}
	}
	fx.hookFired[h.Where+"|"+h.Event+"|"+h.Target] = true
	guard := tTrue
	if h.When != nil {
		// a `when` that names a variable which does not exist yet at this program point cannot be about this point;
		// a `when` comparing the event's key/value with a constant of another sort (a map with bool keys seen by a
		// hook about string keys) is simply false for this event
		skip := false
		func() {
			defer func() {
				if r := recover(); r != nil {
					if ve, ok := r.(vcError); ok && strings.Contains(ve.msg, "equality between sorts") {
						skip = true
						return
					}
					panic(r)
				}
			}()
			if fx.hookStmtUnallocated(HookStmt{Kind: "assert", E: h.When}, env) {
				skip = true
				return
			}
			guard = fx.evalBool(h.When, env)
		}()
		if skip {
			return
		}
	}
	for _, a := range h.Assigns {
		env.cur = fx.st
		if guard.S != "true" && (a.Kind == "assert" || a.Kind == "assign") {
			// a guarded statement that names a variable not yet allocated at this program point is fine as long as the
			// guard cannot hold here: that becomes the obligation (nothing is skipped silently)
			if fx.hookStmtUnallocated(a, env) {
				fx.oblige("hook:guard-excludes-site", "site.hook", tNot(guard), where, "the guard of `"+a.Src+"` cannot hold where the variables it names do not exist yet")
				continue
			}
		}
		switch a.Kind {
		case "assign":
			root := ghostRoot(a.LHS)
			old, ok := fx.st.ghost[root]
			if !ok {
				panic(vcErr("%s: hook assigns unknown ghost %q", h.Where, root))
			}
			os := old.(Sc)
			nv := fx.evalSpec(a.E, env)
			var nt Term
			if root == a.LHS {
				nt = fx.sc(nv, os.T.So)
			} else {
				// g[k] = v
				lhs, err := parseSpec(a.LHS)
				if err != nil {
					panic(vcErr("%s: %v", h.Where, err))
				}
				ix, ok := lhs.(EIndex)
				if !ok {
					panic(vcErr("%s: unsupported ghost lvalue %s", h.Where, a.LHS))
				}
				is, es, _ := arrParts(os.T.So)
				key := fx.sc(fx.evalSpec(ix.I, env), is)
				if fx.ghostTypes[root] == "RefBoolMap" {
					fx.oblige("ghost:"+root+":key-allocated", "site.hook", tImp(guard, tOr(tNot(fx.sc(nv, es)), tSel(fx.alive(fx.st), key))), where, "only allocated objects enter the set "+root)
				}
				nt = tStore(os.T, key, fx.sc(nv, es))
			}
			fx.st.ghost[root] = Sc{tIte(guard, nt, os.T), nil}
		case "havoc":
			old := fx.st.ghost[a.LHS].(Sc)
			fx.st.ghost[a.LHS] = Sc{tIte(guard, fx.freshConst("hv_"+a.LHS, old.T.So), old.T), nil}
		case "assert":
			n := "hook"
			if a.Label != "" {
				n = "hook:" + a.Label
			}
			fx.oblige(n, "site.hook", tImp(guard, fx.evalBool(a.E, env)), where, a.Src)
		case "assume":
			fx.assume(tImp(guard, fx.evalBool(a.E, env)))
			fx.assumedNotes = append(fx.assumedNotes, fmt.Sprintf("%s: hook %s", fx.name, a.Src))
		case "apply":
			call := a.E.(ECall)
			l := fx.v.cs.Lemmas[call.Fun]
			if l == nil {
				panic(vcErr("%s: apply of unknown lemma %q", h.Where, call.Fun))
			}
			if len(call.Args) != len(l.Vars) {
				panic(vcErr("%s: lemma %s takes %d arguments", h.Where, call.Fun, len(l.Vars)))
			}
			if l.Mode != "" && l.Mode != fx.mode {
				panic(vcErr("%s: lemma %s is proved in mode %s, applied in mode %s", h.Where, call.Fun, l.Mode, fx.mode))
			}
			if !l.Assumed && fx.v.prop != "" && !hasProp(l.Props, fx.v.prop) {
				panic(vcErr("%s: lemma %s is not proved under property %s (add it to the lemma's prop line)", h.Where, call.Fun, fx.v.prop))
			}
			if l.Assumed {
				fx.assumedNotes = append(fx.assumedNotes, fmt.Sprintf("%s: instance of the assumed lemma %s", fx.name, call.Fun))
			}
			fx.lemmasUsed[call.Fun] = true
			le := &SpecEnv{fx: fx, cur: env.cur, old: env.old, names: map[string]SV{}, bound: map[string]SV{}, callee: true}
			for i, qv := range l.Vars {
				le.names[qv.Name] = fx.evalSpec(call.Args[i], env)
			}
			var pre, post []Term
			for _, c := range l.Requires {
				pre = append(pre, fx.evalBool(c.E, le))
			}
			for _, c := range l.Ensures {
				post = append(post, fx.evalBool(c.E, le))
			}
			fx.assume(tImp(tAnd(guard, tAnd(pre...)), tAnd(post...)))
		}
	}
}

func (fx *fnExec) runCallHooks(name string, args []SV, res SV, env *SpecEnv, where string) {
	if fx.ctr == nil {
		return
	}
	for _, h := range fx.ctr.Hooks {
		if h.Event != "call" || !fx.matchCallSite(h.Target, name) {
			continue
		}
		ne := fx.curEnv()
		for i, a := range args {
			ne.names[fmt.Sprintf("arg%d", i)] = a
		}
		if res != nil {
			ne.names["result"] = res
			if tu, ok := res.(Tu); ok {
				for i, e := range tu.E {
					ne.names[fmt.Sprintf("result%d", i)] = e
				}
			}
		}
		fx.runHook(h, ne, where)
	}
}

func (fx *fnExec) runStoreHooks(x *ssa.Store, ad Ad, where string) {
	if fx.ctr == nil || len(fx.ctr.Hooks) == 0 {
		return
	}
	target := ""
	if _, isLocal := ad.Cell.(*ssa.Alloc); isLocal && fx.inlining > 0 {
		// the locals of a helper executed in place are not the locals the contract names
		return
	}
	if ad.Cell != nil {
		if a, ok := ad.Cell.(*ssa.Alloc); ok {
			target = fx.v.contractName(fx.fn, a.Comment)
		} else {
			target = fx.v.contractName(fx.fn, ad.Cell.Name())
		}
		if len(ad.Path) > 0 {
			target += pathSuffix(ad.Path)
		}
	} else {
		target = ad.Heap + pathSuffix(ad.Path)
	}
	for _, h := range fx.ctr.Hooks {
		if h.Event != "store" {
			continue
		}
		if m := siteRe.FindStringSubmatch(h.Target); m != nil {
			// "var #k": the k-th store to var in source order
			k, _ := strconv.Atoi(m[2])
			if !matchTarget(m[1], target) || fx.storeOrdinal(x, target) != k {
				continue
			}
		} else if !matchTarget(h.Target, target) {
			continue
		}
		ne := fx.curEnv()
		ne.names["stored"] = fx.val(x.Val)
		if fx.prevStored != nil {
			ne.names["previous"] = fx.prevStored
		}
		if ad.Cell == nil && len(ad.Idx) > 0 {
			// store into an object's field / a slice's element: the object (array) written to
			var tt types.Type
			if strings.HasPrefix(ad.Heap, "F.") && len(ad.rootTyps) > 0 && ad.rootTyps[0] != nil {
				tt = types.NewPointer(ad.rootTyps[0])
			}
			ne.names["target"] = Sc{ad.Idx[0], tt}
			if strings.HasPrefix(ad.Heap, "E.") && len(ad.Idx) > 1 {
				// slice element: the absolute index written in that array
				ne.names["targetindex"] = Sc{ad.Idx[1], types.Typ[types.Int]}
			}
		}
		fx.runHook(h, ne, where)
	}
}

func (fx *fnExec) lookupDefine(name string) (*Define, bool) {
	if d, ok := fx.v.cs.Defines[name+"@"+fx.mode]; ok {
		return d, true
	}
	d, ok := fx.v.cs.Defines[name]
	return d, ok
}

func (fx *fnExec) runBeforeCallHooks(name string, args []SV, where string) {
	if fx.ctr == nil {
		return
	}
	for _, h := range fx.ctr.Hooks {
		if h.Event != "before-call" || !fx.matchCallSite(h.Target, name) {
			continue
		}
		ne := fx.curEnv()
		for i, a := range args {
			ne.names[fmt.Sprintf("arg%d", i)] = a
		}
		fx.runHook(h, ne, where)
	}
}

// evalClause evaluates a contract clause; [portable] clauses keep their integer meaning in bit-vector mode (wide.go).
func (fx *fnExec) evalClause(c Clause, env *SpecEnv) Term {
	if !c.Portable || fx.mode != "bv" {
		return fx.evalBool(c.E, env)
	}
	ix := fx.v.newExec(fx.fn, fx.name+"$int-reading", fx.ctr, "int")
	ix.st = newState()
	ix.entry = ix.st
	ix.curR = tTrue
	ix.live = true
	ix.cellNames = map[string][]ssa.Value{}
	widths := map[string]int{}
	var conv func(v SV) SV
	conv = func(v SV) SV {
		switch x := v.(type) {
		case Sc:
			if w := bvWidth(x.T.So); w > 0 {
				widths[x.T.S] = w
				return Sc{app(SInt, "bv2nat", x.T), x.Typ}
			}
			if x.T.So == SBool {
				return x
			}
			panic(vcErr("portable clause %q mentions a value of sort %s", c.Src, x.T.So))
		case Lit:
			return x
		case St:
			n := St{Typ: x.Typ}
			for _, f := range x.F {
				n.F = append(n.F, conv(f))
			}
			return n
		case Tu:
			var n Tu
			for _, f := range x.E {
				n.E = append(n.E, conv(f))
			}
			return n
		}
		panic(vcErr("portable clause %q mentions an unsupported value %T", c.Src, v))
	}
	envI := &SpecEnv{fx: ix, cur: ix.st, old: ix.st, names: map[string]SV{}, bound: map[string]SV{}, callee: true}
	for k, v := range env.names {
		func() {
			defer func() { recover() }() // names the clause does not use may be of unsupported shapes
			envI.names[k] = conv(v)
		}()
	}
	for k, v := range env.bound {
		envI.bound[k] = conv(v)
	}
	ti := ix.evalBool(c.E, envI)
	if len(ix.assumps) > 0 {
		panic(vcErr("portable clause %q needs axioms in its integer reading; not translatable", c.Src))
	}
	wt, err := wideOfInt(ti, func(s string) int { return widths[s] })
	if err != nil {
		panic(vcErr("portable clause %q: %v", c.Src, err))
	}
	return wt
}

// goType resolves "*T", "*pkg.T", "T" to a Go type of the program (nil when the name is not a Go type).
func (fx *fnExec) goType(name string) types.Type {
	ptr := strings.HasPrefix(name, "*")
	n := strings.TrimPrefix(name, "*")
	pkgName := ""
	if i := strings.Index(n, "."); i >= 0 {
		pkgName, n = n[:i], n[i+1:]
	}
	if !ptr && pkgName == "" {
		switch n {
		case "int", "bool", "byte", "ref", "str", "uint64":
			return nil
		}
	}
	var found types.Type
	look := func(p *types.Package) {
		if p == nil || found != nil {
			return
		}
		if pkgName != "" && p.Name() != pkgName {
			return
		}
		if o := p.Scope().Lookup(n); o != nil {
			if tn, ok := o.(*types.TypeName); ok {
				found = tn.Type()
			}
		}
	}
	if fx.fn != nil && fx.fn.Pkg != nil {
		look(fx.fn.Pkg.Pkg)
	}
	if found == nil {
		for _, p := range fx.v.prog.AllPackages() {
			look(p.Pkg)
		}
	}
	if found == nil {
		return nil
	}
	if ptr {
		return types.NewPointer(found)
	}
	return found
}

var siteRe = regexp.MustCompile(`^(.*\S)\s+#(\d+)$`)

// matchCallSite: target "NAME" matches every call of NAME; "NAME #k" only the k-th call site of NAME in source order.
func (fx *fnExec) matchCallSite(target, name string) bool {
	m := siteRe.FindStringSubmatch(target)
	if m == nil {
		return matchTarget(target, name)
	}
	if !matchTarget(m[1], name) {
		return false
	}
	k, _ := strconv.Atoi(m[2])
	if fx.inlining > 0 {
		// call sites inside a helper executed in place have no ordinal in the function under contract
		return false
	}
	return fx.curCall != nil && fx.callOrdinal(fx.curCall, name) == k
}

func (fx *fnExec) callOrdinal(c *ssa.CallCommon, name string) int {
	type site struct {
		pos token.Pos
		c   *ssa.CallCommon
	}
	var sites []site
	for _, b := range fx.fn.Blocks {
		for _, in := range b.Instrs {
			var cc *ssa.CallCommon
			switch x := in.(type) {
			case *ssa.Call:
				cc = &x.Call
			case *ssa.Defer:
				cc = &x.Call
			case *ssa.Go:
				cc = &x.Call
			}
			if cc != nil && calleeName(cc) == name {
				sites = append(sites, site{cc.Pos(), cc})
			}
		}
	}
	sort.Slice(sites, func(i, j int) bool { return sites[i].pos < sites[j].pos })
	for i, s := range sites {
		if s.c == c {
			return i + 1
		}
	}
	return 0
}

func (fx *fnExec) storeTarget(x *ssa.Store) string {
	// static name of the stored-to variable (cells only)
	cur := x.Addr
	suffix := ""
	for {
		switch y := cur.(type) {
		case *ssa.FieldAddr:
			st := y.X.Type().Underlying().(*types.Pointer).Elem().Underlying().(*types.Struct)
			suffix = "." + st.Field(y.Field).Name() + suffix
			cur = y.X
			continue
		}
		break
	}
	switch r := cur.(type) {
	case *ssa.Alloc:
		if !isCellAlloc(r) {
			// an escaping variable lives in the heap of its type (the same name runStoreHooks gives the store)
			return "F." + typeKey(r.Type().Underlying().(*types.Pointer).Elem()) + suffix
		}
		return fx.v.contractName(fx.fn, r.Comment) + suffix
	case *ssa.FreeVar:
		return fx.v.contractName(fx.fn, r.Name()) + suffix
	case *ssa.Global:
		return r.Name() + suffix
	}
	// a field of an object reached through a pointer value: named like its heap
	if pt, ok := cur.Type().Underlying().(*types.Pointer); ok && suffix != "" {
		return "F." + typeKey(pt.Elem()) + suffix
	}
	// a whole object written through a pointer value (*p = v): named like the heap of the pointed-to type
	if pt, ok := cur.Type().Underlying().(*types.Pointer); ok && suffix == "" {
		if _, isIdx := cur.(*ssa.IndexAddr); !isIdx {
			return "F." + typeKey(pt.Elem())
		}
	}
	// an element of a slice: named like the element heap
	if ia, ok := cur.(*ssa.IndexAddr); ok && suffix == "" {
		if st, isSl := ia.X.Type().Underlying().(*types.Slice); isSl {
			return "E." + typeKey(st.Elem())
		}
	}
	return ""
}

func (fx *fnExec) storeOrdinal(x *ssa.Store, target string) int {
	type site struct {
		pos token.Pos
		s   *ssa.Store
	}
	var sites []site
	for _, b := range fx.fn.Blocks {
		for _, in := range b.Instrs {
			if st, ok := in.(*ssa.Store); ok && fx.storeTarget(st) == target {
				sites = append(sites, site{st.Pos(), st})
			}
		}
	}
	sort.SliceStable(sites, func(i, j int) bool { return sites[i].pos < sites[j].pos })
	for i, s := range sites {
		if s.s == x {
			return i + 1
		}
	}
	return 0
}

// addrConst: a symbolic non-nil pointer value standing for the address ad (one constant per distinct address term).
func (fx *fnExec) addrConst(ad Ad) Term {
	key := "adr$" + ad.Heap
	if ad.Cell != nil {
		key = "adr$" + ad.Cell.Name()
	}
	for _, t := range ad.Idx {
		key += "$" + san(t.S)
	}
	key += san(pathSuffix(ad.Path))
	if len(key) > 120 {
		key = fmt.Sprintf("adr$%d", len(fx.declared))
	}
	if !fx.declared[key] {
		fx.declare(key, SInt)
		fx.assumps = append(fx.assumps, "(assert (not (= "+key+" 0)))")
	}
	return Term{key, SInt}
}

// tableFactIn: an immutable package-level table keeps its initial content in every state: stated for the heap of the
// state a specification is read in (the code path states it at every load of the global).
func (fx *fnExec) tableFactIn(st *State, g *ssa.Global) {
	tb := fx.sliceTables[g]
	if tb == nil {
		return
	}
	h := fx.heap(st, tb.heap, tb.sort)
	key := "tablefact:" + h.S + ":" + tb.ref.S
	if fx.declared[key] {
		return
	}
	fx.declared[key] = true
	fx.assumps = append(fx.assumps, "(assert (= (select "+h.S+" "+tb.ref.S+") "+tb.content.S+"))")
}

// hookStmtUnallocated: evaluating the statement's expression fails because it names a local not allocated yet.
func (fx *fnExec) hookStmtUnallocated(a HookStmt, env *SpecEnv) (bad bool) {
	if a.E == nil {
		return false
	}
	defer func() {
		if r := recover(); r != nil {
			if ve, ok := r.(vcError); ok && (strings.Contains(ve.msg, "not allocated yet") || strings.Contains(ve.msg, "unallocated cell")) {
				bad = true
				return
			}
			panic(r)
		}
	}()
	fx.evalSpec(a.E, env)
	if a.Kind == "assign" && ghostRoot(a.LHS) != a.LHS {
		if lhs, err := parseSpec(a.LHS); err == nil {
			if ix, ok := lhs.(EIndex); ok {
				fx.evalSpec(ix.I, env)
			}
		}
	}
	return false
}
