package main

import (
	"fmt"
	"go/types"
	"regexp"
	"strings"

	"golang.org/x/tools/go/ssa"
)

const modPrefix = "git.metabarcoding.org/obitools/obitools4/obitools4/pkg/"

// fnKey: the name under which contracts refer to a function.
func fnKey(f *ssa.Function) string {
	s := f.String()
	s = strings.ReplaceAll(s, modPrefix, "")
	return s
}

func calleeName(c *ssa.CallCommon) string {
	if c.IsInvoke() {
		recv := c.Value.Type().String()
		recv = strings.ReplaceAll(recv, modPrefix, "")
		return "(" + recv + ")." + c.Method.Name()
	}
	switch f := c.Value.(type) {
	case *ssa.Function:
		return fnKey(f)
	case *ssa.Builtin:
		return "builtin." + f.Name()
	case *ssa.MakeClosure:
		return fnKey(f.Fn.(*ssa.Function))
	}
	// call through a function value: contracts may be given per named function type ("dynamic:obiseq.SequencePredicate")
	t := strings.ReplaceAll(c.Value.Type().String(), modPrefix, "")
	return "dynamic:" + t
}

func (fx *fnExec) setResult(dst *ssa.Call, v SV) {
	if dst != nil {
		fx.vals[dst] = v
	}
}

func (fx *fnExec) execCall(dst *ssa.Call, c *ssa.CallCommon, where string) {
	fx.curCall = c
	defer func() { fx.curCall = nil }()
	name := calleeName(c)
	var args []SV
	var argTypes []types.Type
	if c.IsInvoke() {
		args = append(args, fx.val(c.Value))
		argTypes = append(argTypes, c.Value.Type())
	}
	for _, a := range c.Args {
		args = append(args, fx.val(a))
		argTypes = append(argTypes, a.Type())
	}
	_ = argTypes
	if b, ok := c.Value.(*ssa.Builtin); ok {
		fx.execBuiltin(dst, b, c, args, where)
		return
	}
	sig := c.Signature()
	var resT types.Type
	switch sig.Results().Len() {
	case 0:
	case 1:
		resT = sig.Results().At(0).Type()
	default:
		resT = sig.Results()
	}
	// resolve static callee
	var callee *ssa.Function
	switch f := c.Value.(type) {
	case *ssa.Function:
		callee = f
	case *ssa.MakeClosure:
		callee = f.Fn.(*ssa.Function)
	}
	if callee == nil && !c.IsInvoke() {
		if fv, ok := fx.val(c.Value).(FnV); ok {
			callee = fv.Fn
			name = fnKey(callee)
		}
	}
	ctr := fx.v.cs.Funcs[name]
	if ctr == nil && callee != nil && callee.Origin() != nil {
		ctr = fx.v.cs.Funcs[fnKey(callee.Origin())]
	}
	env := fx.curEnv()
	if ctr != nil {
		fx.applyContract(dst, ctr, name, callee, c, sig, args, resT, where)
		return
	}
	// hooks may still observe the call
	if fx.v.isNoEffect(name) {
		if name == "(*sync.WaitGroup).Wait" && fx.asyncMods != nil {
			// join: what the spawned functions wrote into shared maps is visible now
			fx.havoc(fx.asyncMods, "join")
		}
		if resT != nil {
			r := fx.freshSV(resT, "r_"+shortName(name))
			fx.wfValue(r)
			fx.assumeAlive(r)
			fx.setResult(dst, r)
		}
		fx.runCallHooks(name, args, fx.resultOf(dst), env, where)
		return
	}
	// a helper extracted since the lock was written: executed in place (inline.go)
	if callee != nil && !c.IsInvoke() && fx.inlining < 3 && fx.v.inlineable(callee, 0) {
		if _, isStatic := c.Value.(*ssa.Function); isStatic {
			fx.inlineCall(dst, callee, args, where)
			fx.curCall = c
			fx.runCallHooks(name, args, fx.resultOf(dst), env, where)
			return
		}
	}
	// unknown callee: havoc
	fx.noteUnspec(name)
	ms := newModSet()
	if callee != nil && len(callee.Blocks) > 0 {
		fx.v.inferMods(callee, ms, map[*ssa.Function]bool{})
	} else {
		ms.all = true
		fx.v.opaqueGhostMods(c, ms)
	}
	fx.havoc(ms, "call")
	fx.havocShared()
	if resT != nil {
		r := fx.freshSV(resT, "r_"+shortName(name))
		fx.wfValue(r)
		fx.assumeAlive(r)
		fx.setResult(dst, r)
	}
	fx.runCallHooks(name, args, fx.resultOf(dst), env, where)
}

func (fx *fnExec) resultOf(dst *ssa.Call) SV {
	if dst == nil {
		return nil
	}
	return fx.vals[dst]
}

func shortName(n string) string {
	if i := strings.LastIndex(n, "."); i >= 0 {
		return san(n[i+1:])
	}
	return san(n)
}

// paramNames: names by which a contract can refer to the callee's parameters.
func paramNames(callee *ssa.Function, sig *types.Signature, invoke bool) []string {
	var ns []string
	if callee != nil && len(callee.Params) > 0 {
		for _, p := range callee.Params {
			ns = append(ns, p.Name())
		}
		return ns
	}
	if sig.Recv() != nil || invoke {
		n := "recv"
		if sig.Recv() != nil && sig.Recv().Name() != "" && sig.Recv().Name() != "_" {
			n = sig.Recv().Name()
		}
		ns = append(ns, n)
	}
	for i := 0; i < sig.Params().Len(); i++ {
		n := sig.Params().At(i).Name()
		if n == "" || n == "_" {
			n = fmt.Sprintf("p%d", i)
		}
		ns = append(ns, n)
	}
	return ns
}

func (fx *fnExec) applyContract(dst *ssa.Call, ctr *FuncContract, name string, callee *ssa.Function, c *ssa.CallCommon, sig *types.Signature, args []SV, resT types.Type, where string) {
	if ctr.Extern {
		fx.externUsed[name] = true
	} else {
		fx.contractsUsed[name] = true
	}
	portableOnly := false
	if !ctr.Extern {
		modes := ctr.Modes
		if len(modes) == 0 {
			modes = []string{"int"}
		}
		okMode := false
		for _, m := range modes {
			if m == fx.mode {
				okMode = true
			}
		}
		if !okMode {
			// only portable clauses cross the mode boundary
			for _, cl := range ctr.Requires {
				if !cl.Portable && !isModeNeutral(cl.E) {
					panic(vcErr("callee %s is verified in modes %v; its precondition %q is not portable to mode %s (%s)", name, modes, cl.Src, fx.mode, where))
				}
			}
			if ctr.PanicsIff != nil && !ctr.PanicsIff.Portable {
				panic(vcErr("callee %s is verified in modes %v; its panics_iff is not portable to mode %s (%s)", name, modes, fx.mode, where))
			}
			portableOnly = true
		}
	}
	fx.runBeforeCallHooks(name, args, where)
	pre := fx.st.clone()
	env := &SpecEnv{fx: fx, cur: fx.st, old: pre, names: map[string]SV{}, bound: map[string]SV{}, callee: true}
	if callee != nil {
		env.pkg = callee.Pkg
		if env.pkg == nil && callee.Parent() != nil {
			env.pkg = callee.Parent().Pkg
		}
	}
	pn := paramNames(callee, sig, c.IsInvoke())
	if callee != nil {
		// a parameter renamed since the contracts were written keeps the name the contracts use
		for i := range pn {
			pn[i] = fx.v.contractName(callee, pn[i])
		}
	}
	// closures: bindings come first in callee.Params? No: FreeVars are separate. Params align with args.
	for i, a := range args {
		if i < len(pn) {
			env.names[pn[i]] = a
			env.names[pn[i]+"0"] = a
			if _, isAd := a.(Ad); isAd {
				// an argument of the form &x / &x.f: the parameter is a pointer to that place
				if env.ptrNames == nil {
					env.ptrNames = map[string]bool{}
				}
				env.ptrNames[pn[i]] = true
				env.ptrNames[pn[i]+"0"] = true
			}
		}
		env.names[fmt.Sprintf("arg%d", i)] = a
	}
	if c.IsInvoke() {
		env.names["recv"] = args[0]
	}
	// a closure called through its value: its contract may name the variables it captured (their values now)
	if callee != nil && len(callee.FreeVars) > 0 {
		if fv, ok := fx.val(c.Value).(FnV); ok && fv.Fn == callee && len(fv.Bindings) == len(callee.FreeVars) {
			for i, b := range fv.Bindings {
				fvn := fx.v.contractName(callee, callee.FreeVars[i].Name())
				if _, taken := env.names[fvn]; taken {
					continue
				}
				if ad, isAd := b.(Ad); isAd {
					env.names[fvn] = fx.load(ad)
				} else {
					env.names[fvn] = b
				}
			}
		}
	}
	if strings.HasPrefix(name, "dynamic:") {
		// the function value itself is visible to the contract as `fn`
		fv := fx.val(c.Value)
		if f, ok := fv.(FnV); ok {
			env.names["fn"] = Sc{f.Ref, c.Value.Type()}
		} else {
			env.names["fn"] = fv
		}
	}
	short := shortName(name)
	for k, cl := range ctr.Requires {
		if !cl.inMode(fx.mode) {
			continue
		}
		pt, stated := fx.tryEvalCalleePre(cl, env, callee)
		if !stated {
			// the clause names a variable the closure captured, and the closure value reached this call through a
			// captured variable (its bindings are not known here): the precondition cannot be stated at this site
			fx.noteUnspec("precondition of " + name + " over its captured variables is not checked at this call site: " + cl.Src)
			continue
		}
		fx.oblige(fmt.Sprintf("pre@%s.%d%s", short, k+1, lbl(cl)), "pre", pt, where, name+" requires "+cl.Src)
	}
	if p := ctr.PanicsIff; p != nil && p.inMode(fx.mode) {
		pc := fx.evalClause(*p, env)
		// a panic of the callee is a panic site of the caller
		if fx.ctr != nil && fx.ctr.PanicsIff != nil && fx.ctr.PanicsIff.inMode(fx.mode) {
			saveR := fx.curR
			fx.curR = tAnd(fx.curR, pc)
			fx.oblige("panics_iff:via-"+short, "site.panics_iff", fx.evalClause(*fx.ctr.PanicsIff, fx.entryEnv()), where, "callee "+name+" panics ==> "+fx.ctr.PanicsIff.Src)
			fx.curR = saveR
			fx.assume(tNot(pc))
		} else if fx.ctr != nil && fx.ctr.MayPanic {
			fx.assume(tNot(pc))
		} else {
			fx.oblige("safety:callee-panic@"+short, "safety", tNot(pc), where, "callee "+name+" does not panic: !("+p.Src+")")
		}
	}
	if ctr.Terminal != "" {
		switch ctr.Terminal {
		case "panic":
			fx.runCallHooks(name, args, nil, env, where)
			fx.panicSite(where, name)
		default: // exit: process terminates, no obligation
			fx.runCallHooks(name, args, nil, env, where)
			fx.runHooks("exit", "", fx.curEnv(), where)
			fx.live = false
		}
		return
	}
	// frame
	if !ctr.Pure {
		ms := newModSet()
		if ctr.ModSet {
			for _, m := range ctr.Modifies {
				switch {
				case m == "all":
					ms.all = true
				case strings.HasPrefix(m, "ghost."):
					ms.ghosts[strings.TrimPrefix(m, "ghost.")] = true
				default:
					ms.heaps[m] = true
				}
			}
		} else if callee != nil && len(callee.Blocks) > 0 {
			fx.v.inferMods(callee, ms, map[*ssa.Function]bool{})
		} else if ctr.Extern {
			// extern without modifies clause: no heap effect visible to us
		} else {
			ms.all = true
		}
		// ghost variables assigned by the callee's hooks are part of its frame
		for _, h := range ctr.Hooks {
			for _, a := range h.Assigns {
				if a.Kind == "assign" || a.Kind == "havoc" {
					// only package-level ghost state is shared between a callee and its callers
					if _, shared := fx.v.cs.Ghosts[ghostRoot(a.LHS)]; shared {
						ms.ghosts[ghostRoot(a.LHS)] = true
					}
				}
			}
		}
		// heaps the callee provably modifies only at objects it allocated itself (ensures only_fresh_modified("P")):
		// every object that is alive now keeps its value, and the content of not-yet-allocated memory is arbitrary in
		// our model, so the pre-state heap term can stand for the post-state heap as well - no havoc, no frame quantifier.
		for _, cl := range ctr.Ensures {
			for _, pre := range freshOnlyPrefixes(cl.E) {
				for h := range ms.heaps {
					hh := strings.TrimSuffix(h, "*")
					if strings.HasPrefix(hh, pre) {
						delete(ms.heaps, h)
					}
				}
			}
		}
		fx.havoc(ms, "c_"+short)
		if !ctr.Extern {
			fx.havocShared()
		}
	}
	env.cur = fx.st
	var res SV
	if resT != nil {
		res = fx.freshSV(resT, "r_"+short)
		fx.wfValue(res)
		fx.assumeAlive(res)
		fx.setResult(dst, res)
		fx.bindResult(env, res, sig)
	}
	for _, cl := range ctr.Ensures {
		if !cl.inMode(fx.mode) || (portableOnly && !cl.Portable && !isModeNeutral(cl.E)) {
			continue
		}
		if t, ok := fx.tryEvalCalleeClause(cl, env, callee, ctr); ok {
			fx.assume(t)
		}
	}
	fx.runCallHooks(name, args, res, fx.curEnv(), where)
}

func ghostRoot(lhs string) string {
	if i := strings.IndexAny(lhs, "[."); i >= 0 {
		return lhs[:i]
	}
	return lhs
}

func (fx *fnExec) bindResult(env *SpecEnv, res SV, sig *types.Signature) {
	env.names["result"] = res
	if tu, ok := res.(Tu); ok {
		for i, e := range tu.E {
			env.names[fmt.Sprintf("result%d", i)] = e
			if n := sig.Results().At(i).Name(); n != "" && n != "_" {
				if _, clash := env.names[n]; !clash {
					env.names[n] = e
				}
			}
		}
	} else if sig.Results().Len() == 1 {
		env.names["result0"] = res
		if n := sig.Results().At(0).Name(); n != "" && n != "_" {
			if _, clash := env.names[n]; !clash {
				env.names[n] = res
			}
		}
	}
}

// ---- builtins

func (fx *fnExec) execBuiltin(dst *ssa.Call, b *ssa.Builtin, c *ssa.CallCommon, args []SV, where string) {
	switch b.Name() {
	case "len":
		switch x := args[0].(type) {
		case Sl:
			fx.setResult(dst, Sc{x.Len, types.Typ[types.Int]})
		case Sc:
			if x.T.So == SStr {
				n := app(SInt, "slen", x.T)
				fx.assume(tAnd(app(SBool, "<=", intLit64(0), n), app(SBool, "<=", n, intLit(pow2(48)))))
				fx.setResult(dst, Sc{n, types.Typ[types.Int]})
				return
			}
			if _, ok := c.Args[0].Type().Underlying().(*types.Map); ok {
				n := fx.mapLen(fx.st, x.T, c.Args[0].Type())
				fx.assume(fx.iLe(fx.iZero(), n))
				fx.setResult(dst, Sc{n, types.Typ[types.Int]})
				return
			}
			if _, ok := c.Args[0].Type().Underlying().(*types.Chan); ok {
				r := fx.freshSV(types.Typ[types.Int], "chanlen")
				fx.setResult(dst, r)
				return
			}
			panic(vcErr("len of %s", c.Args[0].Type()))
		default:
			panic(vcErr("len of %T", args[0]))
		}
	case "cap":
		if x, ok := args[0].(Sl); ok {
			fx.setResult(dst, Sc{x.Cap, types.Typ[types.Int]})
			return
		}
		r := fx.freshSV(types.Typ[types.Int], "cap")
		fx.setResult(dst, r)
	case "append":
		fx.builtinAppend(dst, c, args, where)
	case "copy":
		fx.builtinCopy(dst, c, args, where)
	case "delete":
		fx.mapDelete(fx.sc(args[0], SInt), c.Args[0].Type(), args[1])
		// `on call builtin.delete` (arg0 the map, arg1 the key): contracts about WHEN entries are removed
		fx.runCallHooks("builtin.delete", args, nil, fx.curEnv(), where)
	case "min", "max":
		r := args[0]
		for _, a := range args[1:] {
			lt := fx.goBinop(tokenLSS, a, r, c.Args[0].Type(), c.Args[0].Type(), where).(Sc).T
			if b.Name() == "max" {
				lt = fx.goBinop(tokenLSS, r, a, c.Args[0].Type(), c.Args[0].Type(), where).(Sc).T
			}
			r = fx.iteSV(lt, a, r)
		}
		fx.setResult(dst, r)
	case "ssa:wrapnilchk":
		fx.setResult(dst, args[0])
	case "ssa:deferstack":
		fx.setResult(dst, Sc{intLit64(0), nil})
	case "print", "println":
	case "close":
		env := fx.curEnv()
		env.names["ch"] = args[0]
		fx.runHooks("close", c.Args[0].Name(), env, where)
	case "SliceData":
		// unsafe.SliceData(s): remembered so that unsafe.String(SliceData(s), n) can be read as "the first n bytes of s"
		sl, ok := args[0].(Sl)
		if !ok {
			panic(vcErr("unsafe.SliceData of %T", args[0]))
		}
		if fx.sliceData == nil {
			fx.sliceData = map[ssa.Value]Sl{}
		}
		r := Sc{fx.freshConst("slicedata", SInt), nil}
		if dst != nil {
			fx.sliceData[dst] = sl
		}
		fx.setResult(dst, r)
	case "String":
		// unsafe.String(unsafe.SliceData(s), n): a string whose bytes are s[0:n] (as they are now)
		src, isCall := c.Args[0].(*ssa.Call)
		sl, known := fx.sliceData[ssa.Value(src)]
		if !isCall || !known || fx.mode != "int" {
			panic(vcErr("unsafe.String of an untracked pointer"))
		}
		et := sl.Elem
		n := fx.idx(args[1])
		fx.needStr()
		r := fx.freshConst("ustr", SStr)
		fx.oblige("safety:unsafe-string", "safety", tAnd(app(SBool, "<=", intLit64(0), n), app(SBool, "<=", n, sl.Len)), where, "0 <= n <= len(s) in unsafe.String(SliceData(s), n)")
		fx.assume(tEq(app(SInt, "slen", r), n))
		h := fx.heap(fx.st, "E."+typeKey(et), arrSort(SInt, arrSort(SInt, SInt)))
		kq := Term{"k$q", SInt}
		fx.assume(Term{fmt.Sprintf("(forall ((k$q Int)) (! (=> (and (<= 0 k$q) (< k$q %s)) (= (sat %s k$q) (select (select %s %s) %s))) :pattern ((sat %s k$q))))",
			n.S, r.S, h.S, sl.Arr.S, fx.eIdx(sl.Off, kq).S, r.S), SBool})
		fx.setResult(dst, Sc{r, types.Typ[types.String]})
	case "StringData":
		// unsafe.StringData(s): an opaque pointer (what is built from it with unsafe.Slice is unknown memory)
		fx.setResult(dst, Sc{fx.freshConst("strdata", SInt), nil})
	case "Slice":
		// unsafe.Slice(ptr, n): n elements of memory we know nothing about (it may alias anything)
		st, ok := c.Signature().Results().At(0).Type().Underlying().(*types.Slice)
		if !ok && dst != nil {
			st, ok = dst.Type().Underlying().(*types.Slice)
		}
		if !ok {
			panic(vcErr("unsafe.Slice: result type"))
		}
		n := fx.idx(args[1])
		arr := fx.freshConst("uslice", SInt)
		fx.assume(tNot(tEq(arr, intLit64(0))))
		fx.oblige("safety:unsafe-slice", "safety", fx.iLe(fx.iZero(), n), where, "0 <= n in unsafe.Slice(p, n)")
		fx.setResult(dst, Sl{arr, fx.iZero(), n, n, st.Elem()})
	case "clear":
		panic(vcErr("builtin clear unsupported"))
	case "recover":
		fx.setResult(dst, Sc{intLit64(0), nil})
	default:
		panic(vcErr("builtin %s unsupported", b.Name()))
	}
}

func (fx *fnExec) builtinAppend(dst *ssa.Call, c *ssa.CallCommon, args []SV, where string) {
	st := c.Args[0].Type().Underlying().(*types.Slice)
	s := fx.fit(args[0], c.Args[0].Type()).(Sl)
	is := fx.isort() // index sort: Int, or 64-bit vectors in the bit-vector reading
	zero := fx.iZero()
	var k Term
	var srcArr, srcOff Term
	var srcIsStr bool
	var srcStr Term
	switch a := args[1].(type) {
	case Sl:
		k, srcArr, srcOff = a.Len, a.Arr, a.Off
	case Sc:
		if a.T.So == SStr {
			if fx.mode != "int" {
				panic(vcErr("append of a string in bv mode unsupported"))
			}
			srcIsStr = true
			srcStr = a.T
			k = app(SInt, "slen", a.T)
			fx.assume(app(SBool, "<=", intLit64(0), k))
		} else {
			// nil slice
			k = zero
			srcArr, srcOff = intLit64(0), zero
		}
	case Lit:
		k = zero
		srcArr, srcOff = intLit64(0), zero
	default:
		panic(vcErr("append of %T", args[1]))
	}
	newLen := fx.iAdd(s.Len, k)
	fits := fx.iLe(newLen, s.Cap)
	fresh := fx.freshRef("app")
	rArr := tIte(fits, s.Arr, fresh)
	rOff := tIte(fits, s.Off, zero)
	nc := fx.freshConst("appcap", is)
	fx.assume(tAnd(fx.iLe(newLen, nc), fx.iLe(nc, fx.litTo(pow2(48), is))))
	rCap := tIte(fits, s.Cap, nc)
	iq := Term{"i$q", is}
	jq := Term{"j$q", is}
	inRange := func(v, n Term) Term { return tAnd(fx.iLe(zero, v), fx.iLt(v, n)) }
	sel2 := func(h, arr, i Term) Term { return tSel(tSel(h, arr), i) }
	for _, l := range fx.leaves(st.Elem()) {
		name := "E." + typeKey(st.Elem()) + l.suffix
		so := fx.heapSortFor("E.", l)
		h := fx.heap(fx.st, name, so)
		nh := fx.freshConst("apph", so)
		// other arrays unchanged
		fx.assume(Term{fmt.Sprintf("(forall ((a$q Int) (i$q %s)) (! (=> (not (= a$q %s)) (= (select (select %s a$q) i$q) (select (select %s a$q) i$q))) :pattern ((select (select %s a$q) i$q))))", is, rArr.S, nh.S, h.S, nh.S), SBool})
		// old content preserved in the result window
		lhs := sel2(nh, rArr, fx.eIdx(rOff, iq))
		fx.assume(Term{fmt.Sprintf("(forall ((i$q %s)) (! (=> %s (= %s %s)) :pattern (%s)))", is, inRange(iq, s.Len).S, lhs.S, sel2(h, s.Arr, fx.eIdx(s.Off, iq)).S, lhs.S), SBool})
		// appended content
		if srcIsStr {
			fx.assume(Term{fmt.Sprintf("(forall ((j$q Int)) (=> (and (<= 0 j$q) (< j$q %s)) (= (select (select %s %s) %s) (sat %s j$q))))",
				k.S, nh.S, rArr.S, fx.eIdx(rOff, app(SInt, "+", s.Len, jq)).S, srcStr.S), SBool})
		} else if k.S != zero.S {
			fx.assume(Term{fmt.Sprintf("(forall ((j$q %s)) (=> %s (= %s %s)))", is, inRange(jq, k).S,
				sel2(nh, rArr, fx.eIdx(rOff, fx.iAdd(s.Len, jq))).S, sel2(h, srcArr, fx.eIdx(srcOff, jq)).S), SBool})
		}
		// in place: everything outside the appended window is unchanged
		lo := fx.iAdd(s.Off, s.Len)
		hi := fx.iAdd(lo, k)
		fx.assume(tImp(fits, Term{fmt.Sprintf("(forall ((i$q %s)) (! (=> (or %s (not %s)) (= (select (select %s %s) i$q) (select (select %s %s) i$q))) :pattern ((select (select %s %s) i$q))))",
			is, fx.iLt(iq, lo).S, fx.iLt(iq, hi).S, nh.S, s.Arr.S, h.S, s.Arr.S, nh.S, s.Arr.S), SBool}))
		fx.st.heaps[name] = nh
	}
	fx.setResult(dst, Sl{rArr, rOff, newLen, rCap, st.Elem()})
}

func (fx *fnExec) builtinCopy(dst *ssa.Call, c *ssa.CallCommon, args []SV, where string) {
	if fx.mode != "int" {
		panic(vcErr("copy in bv mode unsupported"))
	}
	d := args[0].(Sl)
	var n Term
	et := c.Args[0].Type().Underlying().(*types.Slice).Elem()
	switch s := args[1].(type) {
	case Sl:
		n = tIte(app(SBool, "<=", d.Len, s.Len), d.Len, s.Len)
		for _, l := range fx.leaves(et) {
			name := "E." + typeKey(et) + l.suffix
			so := fx.heapSortFor("E.", l)
			h := fx.heap(fx.st, name, so)
			nh := fx.freshConst("cpyh", so)
			fx.assume(Term{fmt.Sprintf("(forall ((a$q Int) (i$q Int)) (! (=> (not (= a$q %s)) (= (select (select %s a$q) i$q) (select (select %s a$q) i$q))) :pattern ((select (select %s a$q) i$q))))", d.Arr.S, nh.S, h.S, nh.S), SBool})
			fx.assume(Term{fmt.Sprintf("(forall ((i$q Int)) (! (= (select (select %s %s) i$q) (ite (and (<= %s i$q) (< i$q (+ %s %s))) (select (select %s %s) (+ %s (- i$q %s))) (select (select %s %s) i$q))) :pattern ((select (select %s %s) i$q))))",
				nh.S, d.Arr.S, d.Off.S, d.Off.S, n.S, h.S, s.Arr.S, s.Off.S, d.Off.S, h.S, d.Arr.S, nh.S, d.Arr.S), SBool})
			fx.st.heaps[name] = nh
		}
	case Sc:
		if s.T.So != SStr {
			panic(vcErr("copy from %s", s.T.So))
		}
		sl := app(SInt, "slen", s.T)
		n = tIte(app(SBool, "<=", d.Len, sl), d.Len, sl)
		name := "E.byte"
		so := arrSort(SInt, arrSort(SInt, SInt))
		h := fx.heap(fx.st, name, so)
		nh := fx.freshConst("cpyh", so)
		fx.assume(Term{fmt.Sprintf("(forall ((a$q Int) (i$q Int)) (! (=> (not (= a$q %s)) (= (select (select %s a$q) i$q) (select (select %s a$q) i$q))) :pattern ((select (select %s a$q) i$q))))", d.Arr.S, nh.S, h.S, nh.S), SBool})
		fx.assume(Term{fmt.Sprintf("(forall ((i$q Int)) (! (= (select (select %s %s) i$q) (ite (and (<= %s i$q) (< i$q (+ %s %s))) (sat %s (- i$q %s)) (select (select %s %s) i$q))) :pattern ((select (select %s %s) i$q))))",
			nh.S, d.Arr.S, d.Off.S, d.Off.S, n.S, s.T.S, d.Off.S, h.S, d.Arr.S, nh.S, d.Arr.S), SBool})
		fx.st.heaps[name] = nh
	default:
		panic(vcErr("copy from %T", args[1]))
	}
	fx.setResult(dst, Sc{n, types.Typ[types.Int]})
}

// freshOnlyPrefixes: heap prefixes P for which the clause (a conjunction) states only_fresh_modified("P").
func freshOnlyPrefixes(e Expr) []string {
	switch x := e.(type) {
	case EBin:
		if x.Op == "&&" {
			return append(freshOnlyPrefixes(x.X), freshOnlyPrefixes(x.Y)...)
		}
	case ECall:
		if (x.Fun == "only_fresh_modified" || x.Fun == "heap_unchanged_except") && len(x.Args) == 1 {
			if s, ok := x.Args[0].(EStr); ok {
				return []string{s.V}
			}
		}
	}
	return nil
}

// plainData: values through which a callee cannot reach the environment (no interfaces, functions, channels, maps
// or pointers to foreign objects).
func plainData(t types.Type, depth int) bool {
	if depth > 4 {
		return false
	}
	switch u := t.Underlying().(type) {
	case *types.Basic:
		return true
	case *types.Slice:
		return plainData(u.Elem(), depth+1)
	case *types.Array:
		return plainData(u.Elem(), depth+1)
	case *types.Struct:
		for i := 0; i < u.NumFields(); i++ {
			if !plainData(u.Field(i).Type(), depth+1) {
				return false
			}
		}
		return true
	}
	return false
}

// isModeNeutral: a clause that reads the same in the integer and in the bit-vector reading: no arithmetic, no bit
// operation, no literal other than 0/nil/booleans - only comparisons of references, lengths and fields.
func isModeNeutral(e Expr) bool {
	switch x := e.(type) {
	case EIdent, EBool:
		return true
	case EInt:
		return x.V.Sign() == 0
	case EUn:
		return x.Op == "!" && isModeNeutral(x.X)
	case EBin:
		switch x.Op {
		case "==", "!=", "<", "<=", ">", ">=", "&&", "||", "==>", "<==>":
			return isModeNeutral(x.X) && isModeNeutral(x.Y)
		}
		return false
	case ECond:
		return isModeNeutral(x.C) && isModeNeutral(x.A) && isModeNeutral(x.B)
	case ESel:
		return isModeNeutral(x.X)
	case EIndex:
		return isModeNeutral(x.X) && isModeNeutral(x.I)
	case ECall:
		switch x.Fun {
		case "len", "cap", "old", "fresh", "alive":
			for _, a := range x.Args {
				if !isModeNeutral(a) {
					return false
				}
			}
			return true
		}
		return false
	}
	return false
}

// tryEvalCalleeClause: a postcondition that names variables local to the callee (its state at exit) says nothing a
// caller can use: it is checked on the callee and skipped at call sites.
func (fx *fnExec) tryEvalCalleeClause(cl Clause, env *SpecEnv, callee *ssa.Function, ctr *FuncContract) (t Term, ok bool) {
	defer func() {
		if r := recover(); r != nil {
			if ve, isVE := r.(vcError); isVE && strings.Contains(ve.msg, "unknown identifier") && callee != nil {
				// only names that ARE local variables of the callee are excused; anything else is a specification error
				m := regexp.MustCompile(`unknown identifier "([^"]+)"`).FindStringSubmatch(ve.msg)
				if m != nil && (fx.v.calleeHasLocal(callee, m[1]) || ctrHasGhost(ctr, m[1])) {
					ok = false
					return
				}
			}
			panic(r)
		}
	}()
	return fx.evalClause(cl, env), true
}

// tryEvalCalleePre: a precondition of a closure that names one of the closure's free variables which the call site
// cannot resolve (closure reached through a captured variable) is reported as not stated; anything else is an error.
func (fx *fnExec) tryEvalCalleePre(cl Clause, env *SpecEnv, callee *ssa.Function) (t Term, ok bool) {
	defer func() {
		if r := recover(); r != nil {
			if ve, isVE := r.(vcError); isVE && strings.Contains(ve.msg, "unknown identifier") && callee != nil {
				m := regexp.MustCompile(`unknown identifier "([^"]+)"`).FindStringSubmatch(ve.msg)
				if m != nil {
					for _, f := range callee.FreeVars {
						if f.Name() == m[1] || fx.v.contractName(callee, f.Name()) == m[1] {
							ok = false
							return
						}
					}
				}
			}
			panic(r)
		}
	}()
	return fx.evalClause(cl, env), true
}

func (v *Verifier) calleeHasLocal(fn *ssa.Function, name string) bool {
	if i := strings.Index(name, "@"); i > 0 {
		name = name[:i]
	}
	for _, b := range fn.Blocks {
		for _, in := range b.Instrs {
			if a, ok := in.(*ssa.Alloc); ok && (a.Comment == name || v.contractName(fn, a.Comment) == name) {
				return true
			}
		}
	}
	return false
}

func ctrHasGhost(ctr *FuncContract, name string) bool {
	if ctr == nil {
		return false
	}
	for _, g := range ctr.Ghosts {
		if g.Name == name {
			return true
		}
	}
	return false
}
