package main

import (
	"encoding/json"
	"flag"
	"fmt"
	"os"
	"path/filepath"
	"regexp"
	"sort"
	"strconv"
	"strings"
	"time"
)

type BoundedSpec struct {
	Name          string `json:"name"`
	Pkg           string `json:"pkg"`  // package directory relative to the repository
	File          string `json:"file"` // harness test file relative to /verif
	Run           string `json:"run"`
	BoundQuick    int    `json:"bound_quick"`
	BoundThorough int    `json:"bound_thorough"`
	What          string `json:"what"`
}

type PropConfig struct {
	Bounded     []BoundedSpec `json:"bounded"`
	Packages    []string      `json:"packages"`
	TrustedBase []string      `json:"trusted_base"`
	Assumptions []string      `json:"assumptions"`
	Note        string        `json:"note"`
}

func envOr(k, d string) string {
	if v := os.Getenv(k); v != "" {
		return v
	}
	return d
}

func main() {
	if len(os.Args) < 2 {
		fmt.Fprintln(os.Stderr, "usage: govc check|dump|list ...")
		os.Exit(2)
	}
	switch os.Args[1] {
	case "check":
		os.Exit(cmdCheck(os.Args[2:]))
	case "dump":
		os.Exit(cmdDump(os.Args[2:]))
	default:
		fmt.Fprintln(os.Stderr, "unknown command")
		os.Exit(2)
	}
}

func loadProps(verif string) (map[string]*PropConfig, error) {
	b, err := os.ReadFile(filepath.Join(verif, "props.json"))
	if err != nil {
		return nil, err
	}
	m := map[string]*PropConfig{}
	if err := json.Unmarshal(b, &m); err != nil {
		return nil, err
	}
	return m, nil
}

var propLabelRe = regexp.MustCompile(`[:/]((?:C\d{2})+)\.[A-Za-z_]`)

type funcRun struct {
	name string
	mode string
	fx   *fnExec
	err  error
}

func hasProp(ps []string, id string) bool {
	for _, p := range ps {
		if p == id {
			return true
		}
	}
	return false
}

func cmdDump(args []string) int {
	fs := flag.NewFlagSet("dump", flag.ExitOnError)
	repo := fs.String("repo", envOr("VERIF_REPO", "/repo"), "")
	verif := fs.String("verif", envOr("VERIF_DIR", "/verif"), "")
	pkg := fs.String("pkg", "", "package pattern")
	fn := fs.String("fn", "", "function key")
	mode := fs.String("mode", "", "")
	obl := fs.String("obl", "", "obligation substring to print SMT for")
	caseN := fs.Int("case", 0, "case number (1-based) of a `cases` contract")
	fs.Parse(args)
	v, err := loadVerifier(*repo, *verif, strings.Split(*pkg, ","))
	if err != nil {
		fmt.Fprintln(os.Stderr, err)
		return 2
	}
	f := v.funcs[*fn]
	if f == nil {
		fmt.Fprintln(os.Stderr, "no such function; candidates:")
		var ks []string
		for k := range v.funcs {
			if strings.Contains(k, *fn) {
				ks = append(ks, k)
			}
		}
		sort.Strings(ks)
		for _, k := range ks {
			fmt.Fprintln(os.Stderr, "  ", k)
		}
		return 2
	}
	ctr := v.cs.Funcs[*fn]
	m := *mode
	if m == "" {
		m = "int"
		if ctr != nil && len(ctr.Modes) > 0 {
			m = ctr.Modes[0]
		}
	}
	fx := v.newExec(f, *fn, ctr, m)
	if *caseN > 0 {
		fx.caseIdx = *caseN - 1
	}
	if err := fx.run(); err != nil {
		fmt.Fprintln(os.Stderr, "ERROR:", err)
		return 2
	}
	dir, _ := os.MkdirTemp("", "govc")
	defer os.RemoveAll(dir)
	dischargeAll(fx.obls, dir, 5, 10, false, 12)
	for _, o := range fx.obls {
		fmt.Printf("%-8s %-10s %6.2fs %s   [%s] %s\n", o.Verdict, o.Solver, o.Time, o.Name, o.Where, o.Src)
		if *obl != "" && strings.Contains(o.Name, *obl) {
			fmt.Println(o.smt(true))
			fmt.Println(o.Model)
		}
	}
	return 0
}

type KnownFinding struct {
	Property   string            `json:"property"`
	Obligation string            `json:"obligation"`
	Region     string            `json:"region"`
	What       string            `json:"what"`
	Input      map[string]string `json:"input"`
	Status     string            `json:"status"` // "known" | "fixed"
	Commit     string            `json:"commit,omitempty"`
}

type KnownFile struct {
	Findings []KnownFinding `json:"findings"`
}

func loadKnown(verif string) *KnownFile {
	kf := &KnownFile{}
	b, err := os.ReadFile(filepath.Join(verif, "known_findings.json"))
	if err == nil {
		json.Unmarshal(b, kf)
	}
	return kf
}

func cmdCheck(args []string) int {
	fs := flag.NewFlagSet("check", flag.ExitOnError)
	repo := fs.String("repo", envOr("VERIF_REPO", "/repo"), "")
	verif := fs.String("verif", envOr("VERIF_DIR", "/verif"), "")
	prop := fs.String("prop", "", "property id")
	tier := fs.String("tier", envOr("VERIF_TIER", "quick"), "")
	only := fs.String("only", "", "restrict to functions containing this substring (debug; never used by registered commands)")
	verbose := fs.Bool("v", false, "")
	updateLock := fs.Bool("update-lock", false, "rewrite the obligation lock entries of this property")
	fs.Parse(args)
	t0 := time.Now()
	seed, _ := strconv.Atoi(envOr("VERIF_SEED", "0"))
	props, err := loadProps(*verif)
	if err != nil {
		fmt.Fprintln(os.Stderr, "props.json:", err)
		return 2
	}
	pc := props[*prop]
	if pc == nil {
		fmt.Fprintln(os.Stderr, "unknown property", *prop)
		return 2
	}
	v, err := loadVerifier(*repo, *verif, pc.Packages)
	if err != nil {
		fmt.Fprintln(os.Stderr, "load:", err)
		return 2
	}
	v.known = loadKnown(*verif)
	v.prop = *prop
	currentTier = *tier
	quickS, fullS, agree := 1, 30, false
	if *tier == "thorough" {
		quickS, fullS, agree = 10, 90, true
	}
	// functions of this property
	var names []string
	for _, n := range v.cs.order {
		c := v.cs.Funcs[n]
		if c.Extern || !hasProp(c.Props, *prop) {
			continue
		}
		if *only != "" && !strings.Contains(n, *only) {
			continue
		}
		names = append(names, n)
	}
	var runs []*funcRun
	var obls []*Obligation
	var bindingFailures []string
	for _, n := range names {
		c := v.cs.Funcs[n]
		f := v.funcs[n]
		if f == nil || len(f.Blocks) == 0 {
			bindingFailures = append(bindingFailures, fmt.Sprintf("%s/binding: function under contract not found in %s", n, strings.Join(pc.Packages, ",")))
			continue
		}
		modes := c.Modes
		if len(modes) == 0 {
			modes = []string{"int"}
		}
		for _, m := range modes {
			name := n
			if len(modes) > 1 {
				name = n + "[" + m + "]"
			}
			ncase := len(c.Cases)
			for ci := -1; ci < ncase; ci++ {
				if ncase == 0 && ci >= 0 {
					break
				}
				cname := name
				if ci >= 0 {
					cname = fmt.Sprintf("%s{case %d}", name, ci+1)
				}
				fx := v.newExec(f, cname, c, m)
				fx.caseIdx = ci
				if ncase > 0 && ci == -1 {
					// only the exhaustiveness obligation is taken from the un-split run
					fx.exhaustOnly = true
				}
				err := fx.run()
				if ci <= 0 {
					runs = append(runs, &funcRun{n, m, fx, err})
				}
				if err != nil {
					bindingFailures = append(bindingFailures, fmt.Sprintf("%s/binding: %v", cname, err))
					continue
				}
				if fx.exhaustOnly {
					for _, o := range fx.obls {
						if strings.HasSuffix(o.Name, "/cases:exhaustive") {
							obls = append(obls, o)
						}
					}
					continue
				}
				obls = append(obls, fx.obls...)
			}
		}
	}
	// lemmas
	for _, ln := range sortedKeys(v.cs.Lemmas) {
		l := v.cs.Lemmas[ln]
		if !hasProp(l.Props, *prop) || l.Assumed {
			continue
		}
		if *only != "" && !strings.Contains(ln, *only) {
			continue
		}
		fx, err := v.lemmaExec(l)
		if err != nil {
			bindingFailures = append(bindingFailures, fmt.Sprintf("lemma %s/binding: %v", ln, err))
			continue
		}
		runs = append(runs, &funcRun{"lemma " + ln, l.Mode, fx, nil})
		obls = append(obls, fx.obls...)
	}
	// obligations labelled "Cnn.<name>" belong to property Cnn only (a function may serve several properties)
	{
		var keep []*Obligation
		for _, o := range obls {
			// a label may name several properties: "C03C16.x" belongs to C03 and to C16
			if m := propLabelRe.FindStringSubmatch(o.Name); m != nil && !strings.Contains(m[1], *prop) {
				continue
			}
			keep = append(keep, o)
		}
		obls = keep
	}
	dir, _ := os.MkdirTemp("", "govc-"+*prop)
	defer os.RemoveAll(dir)
	dischargeAll(obls, dir, quickS, fullS, agree, 10)

	rep := newReport(v, *prop, *tier, seed, pc)
	rep.collect(runs, obls, bindingFailures, *verbose)
	if *updateLock {
		rep.writeLock()
		v.writeLocalsLock()
	} else if *only == "" {
		rep.checkLock()
	}
	rep.replayAll(dir)
	rep.runBounded(dir)
	// VERIF_NO_EVIDENCE: runs on deliberately modified trees (tools/try_seed.sh, tools/selftest.sh) must not overwrite the evidence
	code := rep.finish(time.Since(t0).Seconds(), *only == "" && os.Getenv("VERIF_NO_EVIDENCE") == "")
	return code
}
